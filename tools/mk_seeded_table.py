#!/usr/bin/env python3
"""Rebuild the seeded-change table of DESIGN.md section 7.7 from sensitivity/RESULTS-all.tsv."""
import csv, json, os
V = os.path.dirname(os.path.dirname(os.path.abspath(__file__)))
rows = {r['patch']: r for r in csv.DictReader(open(f'{V}/sensitivity/RESULTS-all.tsv'), delimiter='\t')}
notes = {
    'S-C13-r2a4': ' (missed at first; caught since the case-flip sibling exists)',
    'S-C12-r3c4': ' (missed at first; caught since the in-place deliveries exist)',
    'S-C12-r3a1': ' (release configuration only)',
    'S-C12-r2b1': ' - advisory PROTOCOL-NOTE by decision (the sink error is still returned)',
    'S-C13-r5a2': ' - outside the statement (non-JSON format only); observed by phase B and reported as FORMAT-NOTE (section 7.10)',
    'S-C12-r5b2': ' (long-history pass: ~10^5 versions on one thread; seed dependent at quick size)',
    'S-C12-r5b4': ' - out of reach (thread-exit destructor)',
    'S-C13-r5a1': ' (statistically: a race, seen by the parallel workers; not replayable)',
    'S-C12-r5b1': ' (statistically: a race, seen by the parallel workers; not replayable)',
}
out = []
caught = 0
for d in sorted(os.listdir(f'{V}/seeded')):
    m = json.load(open(f'{V}/seeded/{d}/meta.json'))
    r = rows.get(f'seeded/{d}/patch.diff')
    if r is None:
        out.append(f"| {d} | {m['change']} | {m['needs_to_manifest']} | (not in the last regression) | |")
        continue
    own = m['property']; other = 'C13' if own == 'C12' else 'C12'
    hit = r[own] == '1'
    caught += hit
    verdict = '**caught**' if hit else 'not flagged'
    classes = r[own + '_classes'].rstrip(',').replace(',', ', ')
    also = f' (also by {other})' if r[other] == '1' else ''
    out.append(f"| {d} | {m['change']} | {m['needs_to_manifest']} | {verdict}{notes.get(d, '')}{also} | {classes} |")
table = "| id | change | needs | quick check | classes |\n|---|---|---|---|---|\n" + '\n'.join(out) + '\n\n'
s = open(f'{V}/DESIGN.md').read()
a = s.index("| id | change | needs | quick check | classes |")
b = s.index("Which part of the machinery each relies on:")
open(f'{V}/DESIGN.md', 'w').write(s[:a] + table + s[b:])
print(f"{len(out)} seeded changes, {caught} flagged by the owning property's quick check")
