#!/bin/sh
# tools/sensitivity.sh [patch.diff ...]
# For each patch: apply to /repo, confirm the repo's own suite still passes (132, with and
# without --features serde), run both quick checks, record which fired, undo the patch.
# Default: every patch under /verif/sensitivity/{detect,quiet,quiet-agents,quiet-review,quiet-review2,quiet-review3,quiet-review4,detect-review2,detect-review4,arguable} and
# /verif/seeded/*/patch.diff.
# Writes $VERIF/sensitivity/RESULTS.tsv.  Never leaves /repo modified.
VERIF="$(cd "$(dirname "$0")/.." && pwd)"
cd "$VERIF" || exit 2
[ -z "$(git -C /repo status --porcelain --untracked-files=no)" ] || { echo "refusing: /repo has uncommitted changes"; exit 2; }
if [ $# -eq 0 ]; then set -- sensitivity/detect/*.diff sensitivity/quiet/*.diff sensitivity/quiet-agents/*.diff sensitivity/quiet-review/*.diff sensitivity/quiet-review2/*.diff sensitivity/quiet-review3/*.diff sensitivity/quiet-review4/*.diff sensitivity/detect-review2/*.diff sensitivity/detect-review4/*.diff sensitivity/arguable/*.diff seeded/*/patch.diff; fi
out=${RESULTS:-$VERIF/sensitivity/RESULTS.tsv}
printf 'patch\tsuite\tsuite_serde\tC12\tC12_classes\tC13\tC13_classes\n' > "$out"
tmp=$(mktemp -d)
for p in "$@"; do
  [ -f "$p" ] || continue
  if ! git -C /repo apply "$(realpath "$p")"; then echo "cannot apply $p"; continue; fi
  suite=$(cd /repo && cargo test --workspace --no-fail-fast --offline 2>&1 | grep -E '^test result' | head -1 | sed -E 's/.* ([0-9]+) passed; ([0-9]+) failed.*/\1p\/\2f/')
  suite_serde=$(cd /repo && cargo test --features serde --lib --no-fail-fast --offline 2>&1 | grep -E '^test result' | head -1 | sed -E 's/.* ([0-9]+) passed; ([0-9]+) failed.*/\1p\/\2f/')
  # OWNING_ONLY=1: for a seeded change run only the check of the property it was written against
  own=""
  if [ "${OWNING_ONLY:-0}" = 1 ] && [ -f "$(dirname "$p")/meta.json" ]; then
    own=$(python3 -c "import json,sys;print(json.load(open(sys.argv[1]))['property'])" "$(dirname "$p")/meta.json")
  fi
  for id in C12 C13; do
    if [ -n "$own" ] && [ "$own" != "$id" ]; then : > "$tmp/$id.out"; echo - > "$tmp/$id.rc"; continue; fi
    ./check $id --tier quick --evidence "$tmp/$id.json" --replay-dir "$tmp/replays" > "$tmp/$id.out" 2>&1
    echo $? > "$tmp/$id.rc"
  done
  c12=$(cat $tmp/C12.rc); c13=$(cat $tmp/C13.rc)
  k12=$(grep '^violated:' $tmp/C12.out | awk '{print $2}' | sort -u | tr '\n' ',' )
  k13=$(grep '^violated:' $tmp/C13.out | awk '{print $2}' | sort -u | tr '\n' ',' )
  printf '%s\t%s\t%s\t%s\t%s\t%s\t%s\n' "$p" "$suite" "$suite_serde" "$c12" "$k12" "$c13" "$k13" | tee -a "$out"
  git -C /repo checkout -- .
done
rm -rf "$tmp"
[ -z "$(git -C /repo status --porcelain --untracked-files=no)" ] || echo "WARNING: /repo left modified"
