#!/bin/sh
# tools/determinism.sh [seeds] [runs-per-seed]
# Proves that a run is a pure function of (VERIF_SEED, run index) and the code: for each seed and
# each property the search batch is executed in separate processes at 1, 4 and 16 workers, twice
# each, dumping the per-run event-log digests (every stub call with its decision and byte
# counts); all six dumps must be byte-identical.  Then the full quick check (enumeration
# included) is run at two worker counts and the batch digests in the evidence are compared.
VERIF="$(cd "$(dirname "$0")/.." && pwd)"
cd "$VERIF/sim" || exit 2
seeds=${1:-200}; runs=${2:-3000}
CARGO_TARGET_DIR="$VERIF/sim/target" cargo build --offline --profile sim >/dev/null 2>&1 || { echo "build failed"; exit 2; }
tmp=$(mktemp -d); bad=0; procs=0
for id in C12 C13; do
  s=1
  while [ $s -le $seeds ]; do
    ref=""
    for w in 1 4 16; do for rep in a b; do
      rm -f "$tmp/d.$w.$rep"
      ./target/sim/semver-dst check $id --seed $((s * 7919 + 13)) --runs $runs --workers $w --no-enum \
         --dump-digests "$tmp/d.$w.$rep" --evidence "$tmp/e.json" --replay-dir "$tmp/r" --known "$VERIF/known_findings.json" >/dev/null 2>&1
      rc=$?
      procs=$((procs+1))
      # a run that did not produce a verdict (or a dump) is not evidence of anything
      if [ $rc -ne 0 ] || [ ! -s "$tmp/d.$w.$rep" ]; then echo "RUN-FAILED $id seed=$s workers=$w rep=$rep rc=$rc"; bad=$((bad+1)); continue; fi
      h=$(sha256sum < $tmp/d.$w.$rep)
      if [ -z "$ref" ]; then ref="$h"; elif [ "$h" != "$ref" ]; then echo "DIVERGENCE $id seed=$s workers=$w rep=$rep"; bad=$((bad+1)); fi
    done; done
    s=$((s+1))
  done
  echo "$id: $seeds seeds x $runs runs x {1,4,16} workers x 2 repetitions compared"
done
for id in C12 C13; do
  for w in 3 16; do
    ./target/sim/semver-dst check $id --workers $w --evidence "$tmp/full.$id.$w.json" --replay-dir "$tmp/r" --known "$VERIF/known_findings.json" >/dev/null 2>&1 || { echo "RUN-FAILED $id full check workers=$w"; bad=$((bad+1)); }
    procs=$((procs+1))
  done
  a=$(python3 -c "import json;print(json.load(open('$tmp/full.$id.3.json'))['coverage']['event_log_digest'])")
  b=$(python3 -c "import json;print(json.load(open('$tmp/full.$id.16.json'))['coverage']['event_log_digest'])")
  if [ -n "$a" ] && [ "$a" = "$b" ]; then echo "$id: full quick check digest identical at 3 and 16 workers: $a"; else echo "DIVERGENCE $id full digest $a vs $b"; bad=$((bad+1)); fi
done
rm -rf $tmp
echo "processes: $procs, divergences: $bad"
[ $bad -eq 0 ]
