//! Reach measurement: everything here is counted by the stubs and checkers when it *happens*
//! (a fault delivered, a branch taken), never when it is merely configured.

use std::collections::BTreeSet;

macro_rules! counters {
    ($($name:ident),+ $(,)?) => {
        #[allow(non_camel_case_types)]
        #[derive(Clone, Copy, Debug, PartialEq, Eq)]
        #[repr(usize)]
        pub enum C { $($name),+ , _COUNT }
        pub const COUNTER_NAMES: &[&str] = &[$(stringify!($name)),+];
    };
}

counters! {
    // runs
    runs, runs_fault_free_plan, runs_with_fault_delivered, runs_nontrivial, values_unbuildable,
    values_version, values_range, shape_bare, shape_array, shape_struct_field, shape_tagged_enum, shape_map_keys, shape_option, shape_untagged_enum, shape_flattened_struct,
    values_from_text, values_from_fields, values_from_tuple, values_from_setop, setop_panicked,
    model_mismatch_notes,
    // G0: in-memory baseline on the sampled value
    g0_items_checked, g0_reparse_ok,
    // printing phase
    p_calls, p_accept, p_fail_transient, p_fail_sticky, p_reenter, p_sink_panic, p_runs_ok, p_runs_err,
    // write phase, per SimWriter call
    w_calls, w_accept, w_short, w_eintr, w_hard_transient, w_hard_sticky, w_full, w_lost, w_crash, w_reenter, w_sink_panic,
    w_after_crash_ignored,
    flush_calls, flush_ok, flush_err, flush_crash,
    bufwriter_runs, sync_each_write_runs, pretty_runs, fresh_instance_runs, fresh_instance_other_representation,
    // write phase outcomes
    wr_acknowledged, wr_failed_honestly, wr_crashed, wr_corrupted_by_medium,
    // recovery phase
    survivors_complete, survivors_torn, survivors_empty, survivors_complete_unacked,
    flips_applied, flip_runs_rejected, flip_runs_other_value, flip_runs_same_value,
    r_calls, r_chunk, r_eintr, r_hard, r_eof, r_reenter, nested_ops_ok, nested_ops_wrong,
    reads_total, reads_ok, reads_err, reads_under_terminal_fault, reads_fault_after_end,
    dl_reader, dl_bufreader, dl_str, dl_value, dl_destr, dl_destring, dl_deborrowed,
    dl_escaped_str, dl_escaped_reader, dl_in_place, deliveries_not_applicable, records_not_serialisable_in_shape,
    r1_durability_checked, r3_torn_rejected,
    // phase B: second format (binary, self-describing, not human-readable)
    pack_runs, pack_not_serialisable_in_shape, pack_in_memory_round_trips_ok,
    pack_wr_acknowledged, pack_wr_failed_honestly, pack_wr_crashed, pack_write_faults_delivered,
    pack_reads_intact_ok, pack_reads_intact_under_terminal_fault, pack_reads_torn_rejected, pack_reads_non_intact_other,
    pack_read_faults_delivered, pack_buffered_container_shapes, pack_transient_string_runs, pack_in_place_runs,
    // rare corners
    probe_fault_on_first_write, probe_fault_on_last_write, probe_fault_in_multidigit_fragment,
    probe_eintr_then_hard, probe_short_then_hard, probe_record_at_max_length,
    probe_flip_separator_to_identifier, probe_crash_inside_short_write,
    probe_bufwriter_flush_failure_after_clean_display, probe_max_safe_integer_component,
    probe_fault_between_list_items, probe_sticky_then_bufwriter_drop,
    // bookkeeping
    known_finding_hits, violations, advisory_reentrancy_observations, advisory_protocol_observations, advisory_robustness_observations, advisory_format_observations,
}

#[derive(Clone, Debug)]
pub struct Stats {
    pub c: [u64; C::_COUNT as usize],
    /// distinct (write-site class, fault kind, phase)
    pub reach: BTreeSet<(u8, u8, u8)>,
    /// distinct (record length, surviving length) pairs seen after a crash
    pub crash_pairs: BTreeSet<(u32, u32)>,
    /// de-duplication keys of non-trivial runs (value text hash ^ schedule hash)
    pub nontrivial_keys: Vec<u64>,
    /// per-run digest of the event log, xor-folded with the run index (order independent)
    pub log_digest: u64,
    /// first few advisory observations (runs with re-entrant operations): (class, detail)
    pub advisory_samples: Vec<(String, String, &'static str)>,
}

impl Default for Stats {
    fn default() -> Self {
        Stats {
            c: [0; C::_COUNT as usize],
            reach: BTreeSet::new(),
            crash_pairs: BTreeSet::new(),
            nontrivial_keys: Vec::new(),
            log_digest: 0,
            advisory_samples: Vec::new(),
        }
    }
}

impl Stats {
    #[inline]
    pub fn inc(&mut self, c: C) {
        self.c[c as usize] += 1;
    }
    #[inline]
    pub fn add(&mut self, c: C, n: u64) {
        self.c[c as usize] += n;
    }
    pub fn get(&self, c: C) -> u64 {
        self.c[c as usize]
    }
    pub fn merge(&mut self, other: Stats) {
        for i in 0..self.c.len() {
            self.c[i] += other.c[i];
        }
        self.reach.extend(other.reach);
        self.crash_pairs.extend(other.crash_pairs);
        self.nontrivial_keys.extend(other.nontrivial_keys);
        self.log_digest = self.log_digest.wrapping_add(other.log_digest);
        for a in other.advisory_samples {
            if self.advisory_samples.len() < 12 && !self.advisory_samples.iter().any(|x| x.0 == a.0 && x.2 == a.2) {
                self.advisory_samples.push(a);
            }
        }
    }
    pub fn distinct_nontrivial(&mut self) -> u64 {
        self.nontrivial_keys.sort_unstable();
        self.nontrivial_keys.dedup();
        self.nontrivial_keys.len() as u64
    }
    pub fn counters_json(&self) -> serde_json::Value {
        let mut m = serde_json::Map::new();
        for (i, name) in COUNTER_NAMES.iter().enumerate() {
            m.insert((*name).to_string(), serde_json::Value::from(self.c[i]));
        }
        serde_json::Value::Object(m)
    }
}

/// Classification of the fragment a write call carries: which `Display` site produced it.
pub fn site_class(frag: &[u8]) -> u8 {
    match frag {
        [] => 0,
        b"\"" => 1,
        b"." => 2,
        b"-" => 3,
        b"+" => 4,
        b"||" => 5,
        b" " => 6,
        b"[" | b"]" | b"," => 7,
        b">=" | b"<=" | b">" | b"<" | b"*" => 8,
        f if f.iter().all(|b| b.is_ascii_digit()) => {
            if f.len() == 1 {
                9
            } else if f.len() < 15 {
                10
            } else {
                11
            }
        }
        f if f.iter().all(|b| b.is_ascii_alphanumeric() || *b == b'-') => 12,
        f if f.iter().all(|b| b.is_ascii_whitespace()) => 13,
        _ => 14, // compound fragment (BufWriter flush, whole string in one write, ...)
    }
}

pub const SITE_NAMES: [&str; 15] = [
    "empty", "quote", "dot", "hyphen", "plus", "or-joiner", "space", "list-punct", "operator",
    "digit", "number", "15+digit-number", "alnum-identifier", "whitespace", "compound",
];

pub const FAULT_NAMES: [&str; 14] = [
    "short", "eintr", "hard-transient", "hard-sticky", "full", "lost", "crash", "flush-err",
    "fmt-fail-transient", "fmt-fail-sticky", "flush-crash", "accept", "reenter", "sink-panic",
];
