//! Workload generation.  The purpose is *reach of the seam* - every `Display` write site, every
//! fragment size, records that span several reader/writer chunks, the boundary values the
//! property records name - not coverage of the input space.  Versions are drawn model-first:
//! the five fields exist before any text does.

use crate::plan::{IdModel, RSrc, VModel, VSrc, ValueSpec};
use crate::prng::Rng;
use crate::values::canonical_alnum;

pub const MAX_SAFE_INTEGER: u64 = nodejs_semver::MAX_SAFE_INTEGER;
pub const MAX_LENGTH: usize = nodejs_semver::MAX_LENGTH;

pub fn gen_component(rng: &mut Rng) -> u64 {
    match rng.below(16) {
        0..=3 => 0,
        4..=6 => 1,
        7..=9 => rng.range(2, 20),
        10 => rng.range(21, 1_000_000),
        11 => (1u64 << 32) - 1 + rng.below(3),
        12 => MAX_SAFE_INTEGER - 1,
        13 => MAX_SAFE_INTEGER,
        14 if rng.coin() => {
            let n = *rng.pick(SPECIAL_NUMS);
            if n <= MAX_SAFE_INTEGER {
                n
            } else {
                n % (MAX_SAFE_INTEGER + 1)
            }
        }
        14 => rng.range(1, MAX_SAFE_INTEGER),
        _ => rng.range(0, 9),
    }
}

/// Small components, so that several comparators of one range relate to each other.
pub fn gen_small_component(rng: &mut Rng) -> u64 {
    match rng.below(12) {
        0..=2 => 0,
        3..=5 => 1,
        6..=7 => 2,
        8 => 3,
        9 => rng.range(4, 12),
        10 => MAX_SAFE_INTEGER,
        _ => MAX_SAFE_INTEGER - 1,
    }
}

const ALPHA_IDS: &[&str] = &[
    "alpha", "beta", "rc", "pre", "dev", "x", "X", "v", "a", "Z", "SNAPSHOT", "next", "canary",
];
/// Identifiers with a non-ASCII character whose low byte is an ASCII alphanumeric: the parser's
/// identifier predicate looks at `char as u8`, so it accepts them (C05's business); once parsed
/// they are versions like any other and must print, re-parse and go through serde.
const NON_ASCII_IDS: &[&str] = &["a\u{131}", "\u{141}1", "\u{131}\u{131}", "rc-\u{171}"];
const MIXED_IDS: &[&str] = &[
    "rc1", "1a", "a1", "0a", "007a", "1-2", "a-b", "beta-2", "2-migration", "0x10", "1e5", "1E5",
    "00a", "0-0", "x86-64", "sha-5114f85", "exp-sha-5114f85",
];
/// Words and shapes that mean something to *other* parsers (floats, booleans, hex, exponents):
/// only relevant if a change routes identifier classification or printing through one of them.
const WORD_IDS: &[&str] = &[
    "Infinity", "infinity", "inf", "NaN", "nan", "true", "false", "null", "undefined", "e", "E", "e10",
    "0e0", "1e10", "2E5", "1e-5", "0x1F", "0b101", "0o17", "1_000", "i", "u64", "f64", "T", "Z", "latest",
    "next", "LATEST", "nightly", "final",
];
/// Numbers with special bit patterns or digit counts.
const SPECIAL_NUMS: &[u64] = &[
    9_223_372_036_854_775_807, 9_223_372_036_854_775_808, 4_294_967_295, 4_294_967_296, 4_294_967_297,
    9_007_199_254_740_991, 9_007_199_254_740_992, 9_007_199_254_740_993, 999_999_999_999_999_999,
    1_000_000_000_000_000_000, 9_999_999_999_999_999_999, 10_000_000_000_000_000_000, 18_446_744_073_709_551_614,
    1_000_000, 65_535, 65_536, 255, 256, 127, 128, 100, 10,
];
const HYPHEN_IDS: &[&str] = &["-", "--", "---", "-1", "-0", "-a", "a-", "1-", "--1", "-01"];
const BIG_DIGITS: &[&str] = &[
    "18446744073709551616",
    "18446744073709551617",
    "99999999999999999999",
    "340282366920938463463374607431768211456",
    "000000000000000000000000018446744073709551616",
];

pub fn gen_identifier(rng: &mut Rng) -> IdModel {
    match rng.below(20) {
        0..=2 => IdModel::Num(0),
        3..=5 => IdModel::Num(rng.range(1, 20)),
        6 => IdModel::Num(rng.range(21, 100_000)),
        7 if rng.coin() => IdModel::Num(*rng.pick(SPECIAL_NUMS)),
        7 => IdModel::Num(u64::MAX - rng.below(2)),
        8 => IdModel::Num(MAX_SAFE_INTEGER + rng.below(3)),
        9..=12 => IdModel::Alnum((*rng.pick(ALPHA_IDS)).to_string()),
        13 => IdModel::Alnum((*rng.pick(WORD_IDS)).to_string()),
        14..=15 => IdModel::Alnum((*rng.pick(MIXED_IDS)).to_string()),
        16..=17 => IdModel::Alnum((*rng.pick(HYPHEN_IDS)).to_string()),
        18 if rng.below(3) == 0 => IdModel::Alnum((*rng.pick(NON_ASCII_IDS)).to_string()),
        18 => IdModel::Alnum((*rng.pick(BIG_DIGITS)).to_string()),
        _ => {
            // random identifier over the alphabet, with at least one non-digit
            let n = 1 + rng.usize_below(12);
            const AB: &[u8] = b"0123456789abcdefghijklmnopqrstuvwxyzABCDEFGHIJKLMNOPQRSTUVWXYZ-";
            // sometimes a long identifier, or one of exactly 19-21 characters
            let n = match rng.below(12) {
                0 => 19 + rng.usize_below(3),
                1 => 30 + rng.usize_below(100),
                _ => n,
            };
            let mut s: String = (0..n).map(|_| *rng.pick(AB) as char).collect();
            if !canonical_alnum(&s) {
                s.push('q');
            }
            IdModel::Alnum(s)
        }
    }
}

pub fn gen_vmodel(rng: &mut Rng) -> VModel {
    let npre = match rng.below(10) {
        0..=3 => 0,
        4..=6 => 1,
        7 => 2,
        8 => 3,
        _ => 1 + rng.usize_below(8),
    };
    // now and then a version with dozens of short identifiers (up to what MAX_LENGTH allows)
    if rng.below(40) == 0 {
        let n = 9 + rng.usize_below(56);
        let short = |rng: &mut Rng| match rng.below(3) {
            0 => IdModel::Num(rng.below(10)),
            1 => IdModel::Alnum((*rng.pick(&["a", "b", "x", "-", "rc"])).to_string()),
            _ => IdModel::Num(rng.below(100)),
        };
        let in_build = rng.coin();
        let ids: Vec<IdModel> = (0..n).map(|_| short(rng)).collect();
        return VModel {
            major: gen_component(rng) % 1000,
            minor: rng.below(10),
            patch: rng.below(10),
            pre: if in_build { vec![] } else { ids.clone() },
            build: if in_build { ids } else { vec![] },
        };
    }
    let nbuild = match rng.below(10) {
        0..=5 => 0,
        6..=7 => 1,
        8 => 2,
        _ => 1 + rng.usize_below(5),
    };
    VModel {
        major: gen_component(rng),
        minor: gen_component(rng),
        patch: gen_component(rng),
        pre: (0..npre).map(|_| gen_identifier(rng)).collect(),
        build: (0..nbuild).map(|_| gen_identifier(rng)).collect(),
    }
}

pub fn canonical_text(m: &VModel) -> String {
    let mut s = format!("{}.{}.{}", m.major, m.minor, m.patch);
    let id = |i: &IdModel| match i {
        IdModel::Num(n) => n.to_string(),
        IdModel::Alnum(a) => a.clone(),
    };
    for (i, p) in m.pre.iter().enumerate() {
        s.push(if i == 0 { '-' } else { '.' });
        s.push_str(&id(p));
    }
    for (i, b) in m.build.iter().enumerate() {
        s.push(if i == 0 { '+' } else { '.' });
        s.push_str(&id(b));
    }
    s
}

/// Render a model in one of the spellings `Version::parse` accepts.  Returns `None` when the
/// spelling drawn would exceed MAX_LENGTH.
pub fn render_version(rng: &mut Rng, m: &VModel) -> Option<String> {
    let mut s = String::new();
    s.push_str(*rng.pick(&["", "", "", "v", "V", "v ", " ", "V  ", "  ", "v\t"]));
    let zeros = |rng: &mut Rng| -> &'static str {
        match rng.below(8) {
            0 => "0",
            1 => "00",
            2 => "0000000",
            _ => "",
        }
    };
    for (i, n) in [m.major, m.minor, m.patch].iter().enumerate() {
        if i > 0 {
            s.push('.');
        }
        s.push_str(zeros(rng));
        s.push_str(&n.to_string());
    }
    for (i, p) in m.pre.iter().enumerate() {
        if i == 0 {
            // the hyphen may be omitted when the first identifier starts with a letter
            let omit = matches!(p, IdModel::Alnum(a) if a.as_bytes()[0].is_ascii_alphabetic())
                && rng.below(4) == 0;
            if !omit {
                s.push('-');
            }
        } else {
            s.push('.');
        }
        match p {
            IdModel::Num(n) => {
                s.push_str(zeros(rng));
                s.push_str(&n.to_string());
            }
            IdModel::Alnum(a) => s.push_str(a),
        }
    }
    for (i, b) in m.build.iter().enumerate() {
        s.push(if i == 0 { '+' } else { '.' });
        match b {
            IdModel::Num(n) => {
                s.push_str(zeros(rng));
                s.push_str(&n.to_string());
            }
            IdModel::Alnum(a) => s.push_str(a),
        }
    }
    if s.len() > MAX_LENGTH {
        None
    } else {
        Some(s)
    }
}

/// A version whose *rendered text* has exactly `target` bytes (padding the last identifier).
pub fn gen_version_of_length(rng: &mut Rng, target: usize) -> Option<(VModel, String)> {
    let mut m = gen_vmodel(rng);
    if m.pre.is_empty() && m.build.is_empty() {
        m.pre.push(IdModel::Alnum("pad".into()));
    }
    // make sure the padded identifier is alphanumeric
    let in_build = !m.build.is_empty();
    {
        let last = if in_build { m.build.last_mut() } else { m.pre.last_mut() }.unwrap();
        if let IdModel::Num(_) = last {
            *last = IdModel::Alnum("pad".into());
        }
    }
    let text = render_version(rng, &m)?;
    if text.len() > target {
        return None;
    }
    let pad = target - text.len();
    const AB: &[u8] = b"abcxyz0123456789-";
    let extra: String = (0..pad).map(|_| *rng.pick(AB) as char).collect();
    {
        let last = if in_build { m.build.last_mut() } else { m.pre.last_mut() }.unwrap();
        if let IdModel::Alnum(a) = last {
            a.push_str(&extra);
        }
    }
    let mut text = text;
    text.push_str(&extra);
    Some((m, text))
}

pub fn gen_vsrc(rng: &mut Rng) -> VSrc {
    match rng.below(20) {
        0..=10 => {
            let m = gen_vmodel(rng);
            match render_version(rng, &m) {
                Some(t) => VSrc::Text(t),
                None => VSrc::Text(canonical_text(&m).chars().take(MAX_LENGTH).collect()),
            }
        }
        11..=12 => {
            // near and at the length limit
            let target = *rng.pick(&[MAX_LENGTH, MAX_LENGTH, MAX_LENGTH - 1, MAX_LENGTH - 2, 200]);
            match gen_version_of_length(rng, target) {
                Some((_, t)) => VSrc::Text(t),
                None => VSrc::Text("1.2.3".into()),
            }
        }
        13..=16 => VSrc::Fields(gen_vmodel(rng)),
        _ => {
            let ty = rng.below(10) as u8;
            let max: u64 = match ty {
                0 => u8::MAX as u64,
                1 => u16::MAX as u64,
                2 => u32::MAX as u64,
                5 => i8::MAX as u64,
                6 => i16::MAX as u64,
                7 => i32::MAX as u64,
                _ => MAX_SAFE_INTEGER,
            };
            let mut comp = |rng: &mut Rng| match rng.below(4) {
                0 => 0,
                1 => max,
                2 => rng.range(0, max.min(20)),
                _ => rng.range(0, max),
            };
            let (a, b, c) = (comp(rng), comp(rng), comp(rng));
            let d = if rng.coin() { Some(comp(rng)) } else { None };
            VSrc::Tuple { ty, a, b, c, d }
        }
    }
}

// ------------------------------------------------------------------------------------------------
// Ranges: text from the documented grammar plus the loose spellings.

fn push_num(rng: &mut Rng, s: &mut String, n: u64) {
    if rng.below(12) == 0 {
        s.push_str(if rng.coin() { "0" } else { "00" });
    }
    s.push_str(&n.to_string());
}

fn gen_partial(rng: &mut Rng, s: &mut String, small: bool) {
    if rng.below(10) == 0 {
        s.push('v');
    }
    let comp = |rng: &mut Rng| if small { gen_small_component(rng) } else { gen_component(rng) };
    let xr = |rng: &mut Rng| *rng.pick(&["x", "X", "*"]);
    // shape: how many components, which are wildcards
    match rng.below(16) {
        0 => s.push_str(xr(rng)),
        1..=2 => {
            let n = comp(rng);
            push_num(rng, s, n)
        }
        3 => {
            let n = comp(rng);
            push_num(rng, s, n);
            s.push('.');
            s.push_str(xr(rng));
        }
        4..=5 => {
            let (a, b) = (comp(rng), comp(rng));
            push_num(rng, s, a);
            s.push('.');
            push_num(rng, s, b);
        }
        6 => {
            let (a, b) = (comp(rng), comp(rng));
            push_num(rng, s, a);
            s.push('.');
            push_num(rng, s, b);
            s.push('.');
            s.push_str(xr(rng));
        }
        7 => {
            let a = comp(rng);
            push_num(rng, s, a);
            s.push('.');
            s.push_str(xr(rng));
            s.push('.');
            s.push_str(xr(rng));
        }
        _ => {
            let (a, b, c) = (comp(rng), comp(rng), comp(rng));
            push_num(rng, s, a);
            s.push('.');
            push_num(rng, s, b);
            s.push('.');
            push_num(rng, s, c);
            // qualifier
            if rng.below(3) == 0 {
                let n = 1 + rng.usize_below(3);
                let first = gen_identifier(rng);
                let omit_hyphen = matches!(&first, IdModel::Alnum(a) if a.as_bytes()[0].is_ascii_alphabetic())
                    && rng.below(5) == 0;
                if !omit_hyphen {
                    s.push('-');
                }
                push_id(s, &first);
                for _ in 1..n {
                    s.push('.');
                    let id = gen_identifier(rng);
                    push_id(s, &id);
                }
            }
            if rng.below(8) == 0 {
                s.push('+');
                let id = gen_identifier(rng);
                push_id(s, &id);
                if rng.coin() {
                    s.push('.');
                    let id = gen_identifier(rng);
                    push_id(s, &id);
                }
            }
        }
    }
}

fn push_id(s: &mut String, id: &IdModel) {
    match id {
        IdModel::Num(n) => s.push_str(&n.to_string()),
        IdModel::Alnum(a) => s.push_str(a),
    }
}

const GARBAGE: &[&str] = &[
    "foo", "1.2.3.4", ">=1.y", "1.2beta4", "latest", "git+https://x/y", "=>1.0.0", "~~1", "^^1",
    "<>1", "1.2.3-", "@1.2.3", "blerg", "><1",
];

fn gen_simple(rng: &mut Rng, s: &mut String, small: bool) {
    match rng.below(20) {
        0..=7 => {
            s.push_str(*rng.pick(&[">=", ">", "<", "<=", "=", ">=", "<"]));
            if rng.below(6) == 0 {
                s.push(' ');
            }
            gen_partial(rng, s, small);
        }
        8..=10 => gen_partial(rng, s, small),
        11..=13 => {
            s.push_str(*rng.pick(&["~", "~", "~>", "~ ", "~> "]));
            gen_partial(rng, s, small);
        }
        14..=17 => {
            s.push_str(*rng.pick(&["^", "^", "^ "]));
            gen_partial(rng, s, small);
        }
        _ => s.push_str(*rng.pick(GARBAGE)),
    }
}

fn gen_alternative(rng: &mut Rng, s: &mut String, small: bool) {
    match rng.below(12) {
        0..=1 => {
            // hyphen range
            if rng.below(8) != 0 {
                gen_partial(rng, s, small);
            }
            s.push_str(" - ");
            gen_partial(rng, s, small);
        }
        2 => {} // empty alternative
        _ => {
            let n = match rng.below(8) {
                0..=3 => 1,
                4..=5 => 2,
                6 => 3,
                _ => 4,
            };
            for i in 0..n {
                if i > 0 {
                    s.push_str(if rng.below(6) == 0 { "  " } else { " " });
                }
                gen_simple(rng, s, small);
            }
        }
    }
}

pub fn gen_range_text(rng: &mut Rng) -> String {
    let mut s = String::new();
    let small = rng.below(4) != 0;
    let nalt = match rng.below(12) {
        0..=6 => 1,
        7..=8 => 2,
        9 => 3,
        10 => 4,
        _ => 1 + rng.usize_below(12),
    };
    // now and then a very long range: printed forms of several KiB cross every fixed-size
    // buffer a serializer, formatter or reader adapter might use
    if rng.below(1000) == 0 {
        let n = 20 + rng.usize_below(400);
        let mut s = String::new();
        for i in 0..n {
            if i > 0 {
                s.push_str("||");
            }
            match rng.below(4) {
                0 => s.push_str(&format!("{}", i)),
                1 => s.push_str(&format!("^{}.{}", i, rng.below(5))),
                2 => s.push_str(&format!("~{}.{}.{}", i, rng.below(3), rng.below(9))),
                _ => s.push_str(&format!("{}.{}.{}-rc.{}", i, rng.below(3), rng.below(9), rng.below(4))),
            }
        }
        return s;
    }
    if rng.below(16) == 0 {
        s.push(' ');
    }
    for i in 0..nalt {
        if i > 0 {
            s.push_str(*rng.pick(&["||", " || ", "|| ", " ||", "  ||  "]));
        }
        gen_alternative(rng, &mut s, small);
    }
    if rng.below(16) == 0 {
        s.push(' ');
    }
    s
}

/// Ranges at the edges of the version order; operands of set operations are drawn from here now
/// and then, and all pairs are run through the fault-free baseline by the corpus.
pub const SPECIAL_RANGES: &[&str] = &[
    "*", ">=0.0.0-0", "<0.0.0-0", ">=0.0.0", "<0.0.0", "<=0.0.0", ">0.0.0-0", ">0.0.0", "0.0.0", "0.0.0-0",
    "<1.0.0", ">=1.0.0", "<=900719925474099", ">=900719925474099.900719925474099.900719925474099",
    ">900719925474099.900719925474099.900719925474098", "<1.0.0-0", ">=1.0.0-0", "1.0.0 - 2.0.0-0",
    "<0.0.1", ">=0.0.0-0 <0.0.0", "<0.0.0-0 || >=2.0.0",
];

pub fn gen_rsrc(rng: &mut Rng, depth: u32) -> RSrc {
    // rarely: the product of two families of nested intervals, i.e. a set-operation result with
    // hundreds of alternatives (more than either operand could have as parsed text)
    if depth > 0 && rng.below(2500) == 0 {
        let family = |rng: &mut Rng, k: usize| -> String {
            let lo = rng.below(3);
            (0..k)
                .map(|i| format!(">={}.0.0 <{}.{}.0", lo, 50 + i, rng.below(4)))
                .collect::<Vec<_>>()
                .join("||")
        };
        let (k, m) = (12 + rng.usize_below(13), 12 + rng.usize_below(13));
        return RSrc::Intersect(Box::new(RSrc::Text(family(rng, k))), Box::new(RSrc::Text(family(rng, m))));
    }
    if depth > 0 && rng.below(5) == 0 {
        let a = Box::new(gen_rsrc(rng, depth - 1));
        let b = Box::new(gen_rsrc(rng, depth - 1));
        if rng.coin() {
            RSrc::Intersect(a, b)
        } else {
            RSrc::Difference(a, b)
        }
    } else if rng.below(10) == 0 {
        RSrc::Text((*rng.pick(SPECIAL_RANGES)).to_string())
    } else {
        RSrc::Text(gen_range_text(rng))
    }
}

/// Which property's workload: C12 = versions, C13 = ranges.
#[derive(Clone, Copy, Debug, PartialEq, Eq)]
pub enum Prop {
    C12,
    C13,
}

impl Prop {
    pub fn id(&self) -> &'static str {
        match self {
            Prop::C12 => "C12",
            Prop::C13 => "C13",
        }
    }
}

pub fn gen_value_spec(rng: &mut Rng, prop: Prop) -> ValueSpec {
    use crate::plan::Shape;
    let shape = match rng.below(24) {
        0..=10 => Shape::One,
        11..=13 => Shape::Many,
        14..=15 => Shape::Entry,
        16..=17 => Shape::Tagged,
        18..=19 => Shape::Keyed,
        20 => Shape::Opt,
        21..=22 => Shape::Untagged,
        _ => Shape::Flatten,
    };
    let n = match shape {
        Shape::Many => rng.usize_below(if prop == Prop::C12 { 9 } else { 6 }),
        Shape::Keyed => rng.usize_below(5),
        _ => 1,
    };
    match prop {
        Prop::C12 => {
            let mut items: Vec<VSrc> = Vec::new();
            for _ in 0..n {
                let sib = if !items.is_empty() && rng.below(3) == 0 {
                    let k = rng.usize_below(items.len());
                    sibling_version(rng, &items[k])
                } else {
                    None
                };
                items.push(sib.unwrap_or_else(|| gen_vsrc(rng)));
            }
            ValueSpec::Versions { shape, items }
        }
        Prop::C13 => {
            let depth = if shape == Shape::One { 2 } else { 1 };
            let mut items: Vec<RSrc> = Vec::new();
            for _ in 0..n {
                let sib = if !items.is_empty() && rng.below(3) == 0 {
                    let k = rng.usize_below(items.len());
                    sibling_range(rng, &items[k])
                } else {
                    None
                };
                items.push(sib.unwrap_or_else(|| gen_rsrc(rng, depth)));
            }
            ValueSpec::Ranges { shape, items }
        }
    }
}

/// A value that a too-coarse notion of sameness (Version's `==` ignores build metadata; a
/// normalising key ignores spelling) would confuse with `of`: same version, other build
/// metadata / other spelling / the very same text again.
pub fn sibling_version(rng: &mut Rng, of: &VSrc) -> Option<VSrc> {
    let text = match of {
        VSrc::Text(t) => t.clone(),
        VSrc::Fields(m) => canonical_text(m),
        VSrc::Tuple { .. } => return None,
    };
    let core = text.split('+').next().unwrap_or(&text).to_string();
    let out = match rng.below(7) {
        0 => text,
        5 => flip_case(&text),
        6 => {
            // the same version with leading zeros on a component
            match text.find(|c: char| c.is_ascii_digit()) {
                Some(i) => format!("{}0{}", &text[..i], &text[i..]),
                None => text,
            }
        }
        1 => core,
        2 => format!("{}+{}", core, rng.pick(&["b", "build.2", "0", "sib-1.x"])),
        3 => format!("{}+{}", core, rng.below(1000)),
        _ => {
            let t = core.trim_start_matches(|c: char| c == 'v' || c == 'V' || c.is_whitespace());
            format!("v{}", t)
        }
    };
    if out.len() <= MAX_LENGTH {
        Some(VSrc::Text(out))
    } else {
        None
    }
}

/// Swap the case of every letter except the ones the grammar gives a meaning to (`v`, `x`).
fn flip_case(t: &str) -> String {
    t.chars()
        .map(|c| match c {
            'v' | 'V' | 'x' | 'X' => c,
            c if c.is_ascii_lowercase() => c.to_ascii_uppercase(),
            c if c.is_ascii_uppercase() => c.to_ascii_lowercase(),
            c => c,
        })
        .collect()
}

pub fn sibling_range(rng: &mut Rng, of: &RSrc) -> Option<RSrc> {
    let text = match of {
        RSrc::Text(t) => t.clone(),
        _ => return None,
    };
    let ends_in_full_version = {
        let last = text.trim_end().rsplit(|c: char| c == ' ' || c == '|').next().unwrap_or("");
        last.matches('.').count() >= 2
            && last.bytes().last().map(|b| b.is_ascii_alphanumeric()).unwrap_or(false)
            && !last.contains('+')
            && !last.contains('x')
            && !last.contains('X')
            && !last.contains('*')
    };
    Some(RSrc::Text(match rng.below(6) {
        0 => text,
        4 => flip_case(&text),
        5 => flip_case(&text),
        1 if ends_in_full_version => format!("{}+{}", text.trim_end(), rng.pick(&["b", "build.2", "7"])),
        2 => format!(" {} ", text),
        _ => text.replace("||", " || "),
    }))
}

// ------------------------------------------------------------------------------------------------
// Fixed corpus for the single-fault enumeration: hand-picked to hit every `Display` arm.

pub fn version_corpus() -> Vec<VSrc> {
    let t = |s: &str| VSrc::Text(s.to_string());
    let mut v = vec![
        t("0.0.0"),
        t("1.2.3"),
        t("10.20.30"),
        t("v1.2.3"),
        t("V 1.2.3"),
        t(" 1.2.3"),
        t("01.002.0003"),
        t("1.2.3-0"),
        t("1.2.3-alpha"),
        t("1.2.3alpha"),
        t("1.2.3-alpha.1"),
        t("1.2.3-alpha.beta.1.2"),
        t("1.2.3-rc.2-migration"),
        t("1.2.3--"),
        t("1.2.3---.-.--"),
        t("1.2.3-01"),
        t("1.2.3-0a.00a"),
        t("1.2.3-18446744073709551615"),
        t("1.2.3-18446744073709551616"),
        t("1.2.3+build"),
        t("1.2.3+7"),
        t("1.2.3+007.x.-"),
        t("1.2.3-beta.1+7.x"),
        t("1.2.3-x+X"),
        t("900719925474099.900719925474099.900719925474099"),
        t("900719925474098.0.900719925474099-900719925474100+900719925474100"),
        t("4294967296.4294967295.0-4294967296"),
        t("1.0.0-alpha+001"),
        t("1.0.0+20130313144700"),
        t("1.0.0-beta+exp.sha.5114f85"),
        t("1.0.0+21AF26D3----117B344092BD"),
    ];
    // at and near the length limit
    let long_pre = format!("1.2.3-{}", "a".repeat(MAX_LENGTH - 6));
    let long_build = format!("1.2.3+{}", "b".repeat(MAX_LENGTH - 6));
    let long_nohyphen = format!("1.2.3{}", "c".repeat(MAX_LENGTH - 5));
    let many_ids = {
        let mut s = String::from("1.2.3-");
        while s.len() + 2 <= MAX_LENGTH {
            s.push_str("1.");
        }
        s.pop();
        s
    };
    v.push(t(&long_pre));
    v.push(t(&long_build));
    v.push(t(&long_nohyphen));
    v.push(t(&many_ids));
    v.push(VSrc::Fields(VModel {
        major: 1,
        minor: 2,
        patch: 3,
        pre: vec![IdModel::Alnum("-".into()), IdModel::Num(0), IdModel::Num(u64::MAX)],
        build: vec![IdModel::Num(0), IdModel::Alnum("--".into())],
    }));
    v.push(VSrc::Fields(VModel {
        major: MAX_SAFE_INTEGER,
        minor: 0,
        patch: MAX_SAFE_INTEGER,
        pre: vec![],
        build: vec![IdModel::Alnum("b-18446744073709551616".into())],
    }));
    v.push(VSrc::Tuple { ty: 0, a: 255, b: 0, c: 1, d: None });
    v.push(VSrc::Tuple { ty: 5, a: 127, b: 0, c: 1, d: Some(127) });
    v.push(VSrc::Tuple { ty: 3, a: MAX_SAFE_INTEGER, b: 1, c: 0, d: Some(0) });
    v.push(VSrc::Tuple { ty: 9, a: 1, b: 2, c: 3, d: Some(4) });
    v
}

pub fn range_corpus() -> Vec<RSrc> {
    let t = |s: &str| RSrc::Text(s.to_string());
    let mut v: Vec<RSrc> = [
        // every BoundSet arm reachable by parsing
        "<=1.2.3",
        "<1.2.3",
        ">=1.2.3",
        ">1.2.3",
        "1.2.3",
        "=1.2.3",
        ">=1.2.3 <=2.0.0",
        ">=1.2.3 <2.0.0",
        ">1.2.3 <=2.0.0",
        ">1.2.3 <2.0.0",
        // desugarings
        "*",
        "x",
        "",
        "1",
        "1.x",
        "1.2",
        "1.2.x",
        "1.X.*",
        "~1",
        "~1.2",
        "~1.2.3",
        "~>1.2.3",
        "~ 1.2.3-beta.2",
        "^0",
        "^0.0",
        "^0.0.3",
        "^0.2.3",
        "^1",
        "^1.2",
        "^1.2.3",
        "^1.2.3-beta.4",
        "1.2.3 - 2.3.4",
        "1.2 - 2.3",
        "1 - 2",
        " - 2.3.4",
        "1.2.3 - 2",
        "<=1",
        "<=1.2",
        ">1",
        ">1.2",
        "<1",
        "<1.2",
        ">=1",
        "=1",
        "=1.2",
        // prerelease and build in bounds
        ">=1.2.3-alpha.1 <1.2.3",
        ">1.2.3-0",
        "<1.2.3-0",
        "<0.0.0-0",
        "1.2.3-beta.1+build.5",
        ">=1.2.3+build",
        "^1.2.3+build",
        "1.2.3beta",
        ">=1.2.3-x.7.z.92",
        // several alternatives
        "1.2.3 || 2.x",
        "<1.0.0||>=2.0.0 <3.0.0||4.0.0",
        ">=1.2.3 <2.0.0 || >=3.0.0-rc.1 <=3.0.0 || ^4.5.6 || ~7.8 || 9",
        "1||2||3||4||5||6||7||8||9||10",
        // loose spellings, garbage
        "v1.2.3",
        ">= 1.2.3",
        "01.02.03",
        "1.2.3 foo",
        "foo || 1.2.3",
        ">=1.2.3   <2.0.0",
        " 1.2.3 ",
        // conjunctions
        ">=1.0.0 <2.0.0 >=1.5.0",
        ">=1.0.0 <=1.0.0",
        ">1.0.0 <1.0.1",
        // MAX_SAFE_INTEGER
        "<=900719925474099",
        "<=1.900719925474099",
        "900719925474099.900719925474099.900719925474099",
        ">=900719925474098.0.0 <900719925474099.0.0",
        "^900719925474098",
        "~1.900719925474098",
    ]
    .iter()
    .map(|s| t(s))
    .collect();
    v.push(RSrc::Intersect(Box::new(t(">=1.0.0")), Box::new(t("<2.0.0"))));
    v.push(RSrc::Intersect(Box::new(t(">1.0.0 || <0.5.0")), Box::new(t("<=2.0.0"))));
    v.push(RSrc::Difference(Box::new(t(">=1.0.0 <3.0.0")), Box::new(t("2.0.0"))));
    v.push(RSrc::Difference(Box::new(t(">=1.0.0")), Box::new(t(">2.0.0"))));
    v.push(RSrc::Difference(Box::new(t("*")), Box::new(t("1.x"))));
    v
}
