//! The stubs the simulator owns: storage medium, writer, reader, formatter sink, and the
//! recording shim that sits directly under the serializer.  Every call into a stub is a decision
//! point; every decision is appended to the run's effective schedule and folded into the run's
//! event-log digest.

use crate::plan::{FDec, FaultCfg, FlushDec, RDec, Source, WDec};
use crate::prng::{Fnv, Rng};
use crate::stats::{site_class, Stats, C};
use std::fmt;
use std::io;

/// Set when re-entrant operations are switched off (after one of them deadlocked: the code under
/// test holds a lock across the sink call).  `Reenter` decisions then behave like `Accept`.
pub static NO_REENTER: std::sync::atomic::AtomicBool = std::sync::atomic::AtomicBool::new(false);
/// Number of re-entrant operations currently executing, and a counter that moves whenever a run
/// or a re-entrant operation completes; the watchdog in main.rs reads both.
pub static NESTED_IN_FLIGHT: std::sync::atomic::AtomicI64 = std::sync::atomic::AtomicI64::new(0);
pub static PROGRESS: std::sync::atomic::AtomicU64 = std::sync::atomic::AtomicU64::new(0);

fn call_nested(f: &dyn Fn() -> Option<String>) -> Option<String> {
    use std::sync::atomic::Ordering::SeqCst;
    NESTED_IN_FLIGHT.fetch_add(1, SeqCst);
    let r = f();
    NESTED_IN_FLIGHT.fetch_sub(1, SeqCst);
    PROGRESS.fetch_add(1, SeqCst);
    r
}

fn reenter_enabled() -> bool {
    !NO_REENTER.load(std::sync::atomic::Ordering::Relaxed)
}

/// Payload text of a panic raised by a stub on purpose.
pub const SINK_PANIC: &str = "sim: the sink panicked (injected)";

/// A re-entrant operation supplied by the run: performs another operation of the crate on the
/// current thread and returns a description if its result is not what it must be.
pub type Nested<'a> = Option<&'a dyn Fn() -> Option<String>>;

// ------------------------------------------------------------------------------------------------
// Storage medium

#[derive(Debug, Default)]
pub struct Disk {
    /// every byte the medium accepted, in order
    pub bytes: Vec<u8>,
    /// `bytes[..durable]` survive any crash
    pub durable: usize,
    pub crashed: bool,
    /// the medium itself misbehaved (lost write): exactness of acknowledged bytes is off
    pub corrupted: bool,
    /// length of `bytes` at the moment of the crash, before the tail was cut (for reach stats)
    pub len_at_crash: usize,
}

impl Disk {
    fn crash(&mut self, keep_tail: usize) {
        self.len_at_crash = self.bytes.len();
        let tail = self.bytes.len() - self.durable;
        let keep = keep_tail.min(tail);
        self.bytes.truncate(self.durable + keep);
        self.crashed = true;
    }
}

// ------------------------------------------------------------------------------------------------
// Writer between serializer (or BufWriter) and medium

pub struct WriteCtl {
    pub src: Source<WDec>,
    pub flush_src: Source<FlushDec>,
    pub rng: Option<Rng>,
    pub cfg: FaultCfg,
    pub sync_each_write: bool,
    pub sticky: bool,
    pub log: Fnv,
    // reach bookkeeping
    pub calls: usize,
    pub faults_delivered: usize,
    pub terminal_delivered: usize,
    pub last_call_fault: Option<u8>,
    pub prev_dec_kind: u8,
    pub fault_call_indices: Vec<usize>,
    pub lens: Vec<usize>,
    pub flush_calls: usize,
    pub nested_errors: Vec<String>,
    pub reentered: usize,
    pub sink_panicked: bool,
}

impl WriteCtl {
    pub fn new(
        fixed: Vec<WDec>,
        fixed_flush: Vec<FlushDec>,
        rng: Option<Rng>,
        cfg: FaultCfg,
        sync_each_write: bool,
    ) -> Self {
        WriteCtl {
            src: Source::new(fixed),
            flush_src: Source::new(fixed_flush),
            rng,
            cfg,
            sync_each_write,
            sticky: false,
            log: Fnv::default(),
            calls: 0,
            faults_delivered: 0,
            terminal_delivered: 0,
            last_call_fault: None,
            prev_dec_kind: 255,
            fault_call_indices: Vec::new(),
            lens: Vec::new(),
            flush_calls: 0,
            nested_errors: Vec::new(),
            reentered: 0,
            sink_panicked: false,
        }
    }
}

pub struct SimWriter<'a> {
    pub disk: &'a mut Disk,
    pub ctl: &'a mut WriteCtl,
    pub stats: &'a mut Stats,
    pub nested: Nested<'a>,
}

fn draw_write(rng: &mut Option<Rng>, cfg: &FaultCfg, len: usize) -> Option<WDec> {
    let rng = rng.as_mut()?;
    // one draw per kind keeps each rate independent of which other kinds are enabled
    if cfg.w_crash > 0 && rng.chance(cfg.w_crash) {
        let keep_call = rng.usize_below(len + 1);
        let keep_tail = match rng.below(4) {
            0 => 0,
            1 => usize::MAX,
            _ => rng.usize_below(300),
        };
        return Some(WDec::Crash { keep_call, keep_tail });
    }
    if cfg.w_hard_s > 0 && rng.chance(cfg.w_hard_s) {
        return Some(WDec::HardSticky);
    }
    if cfg.w_hard_t > 0 && rng.chance(cfg.w_hard_t) {
        return Some(WDec::HardTransient);
    }
    if cfg.w_full > 0 && rng.chance(cfg.w_full) {
        return Some(WDec::Full);
    }
    if cfg.w_lost > 0 && rng.chance(cfg.w_lost) {
        return Some(WDec::Lost);
    }
    if cfg.w_eintr > 0 && rng.chance(cfg.w_eintr) {
        return Some(WDec::Eintr);
    }
    if cfg.w_short > 0 && len >= 2 && rng.chance(cfg.w_short) {
        return Some(WDec::Short(1 + rng.usize_below(len - 1)));
    }
    if cfg.w_reenter > 0 && rng.chance(cfg.w_reenter) {
        return Some(WDec::Reenter);
    }
    if cfg.w_panic > 0 && rng.chance(cfg.w_panic) {
        return Some(WDec::Panic);
    }
    Some(WDec::Accept)
}

fn other_err(msg: &'static str) -> io::Error {
    io::Error::new(io::ErrorKind::Other, msg)
}

impl<'a> io::Write for SimWriter<'a> {
    fn write(&mut self, buf: &[u8]) -> io::Result<usize> {
        if self.disk.crashed {
            // the process is dead: nothing it does is observable any more
            self.stats.inc(C::w_after_crash_ignored);
            return Err(other_err("sim: process crashed"));
        }
        if buf.is_empty() {
            return Ok(0);
        }
        let call = self.ctl.calls;
        self.ctl.calls += 1;
        self.ctl.lens.push(buf.len());
        self.stats.inc(C::w_calls);
        if self.ctl.sticky {
            // a dead device keeps failing; recorded as a decision so replay sees the same list
            let _ = self.ctl.src.next(WDec::HardSticky, || Some(WDec::HardSticky));
            self.ctl.log.byte(0x17);
            self.stats.inc(C::w_hard_sticky);
            return Err(other_err("sim: sticky write error"));
        }
        let len = buf.len();
        let (rng, cfg) = (&mut self.ctl.rng, &self.ctl.cfg);
        let dec = self.ctl.src.next(WDec::Accept, || draw_write(rng, cfg, len));
        let site = site_class(buf);
        let mut fault_kind: Option<u8> = None;
        let res = match dec {
            WDec::Accept => {
                self.disk.bytes.extend_from_slice(buf);
                self.stats.inc(C::w_accept);
                Ok(len)
            }
            WDec::Reenter => {
                if let (Some(f), true) = (self.nested, reenter_enabled()) {
                    self.ctl.reentered += 1;
                    self.stats.inc(C::w_reenter);
                    self.stats.reach.insert((site, 12, 1));
                    match call_nested(f) {
                        None => self.stats.inc(C::nested_ops_ok),
                        Some(e) => {
                            self.stats.inc(C::nested_ops_wrong);
                            self.ctl.nested_errors.push(e);
                        }
                    }
                }
                self.disk.bytes.extend_from_slice(buf);
                Ok(len)
            }
            WDec::Panic => {
                self.stats.inc(C::w_sink_panic);
                self.stats.reach.insert((site, 13, 1));
                self.ctl.faults_delivered += 1;
                self.ctl.terminal_delivered += 1;
                self.ctl.sink_panicked = true;
                self.ctl.log.byte(0x1f);
                // the medium must not be used afterwards: the writer's owner is gone
                self.disk.crashed = true;
                self.disk.len_at_crash = self.disk.bytes.len();
                std::panic::panic_any(SINK_PANIC);
            }
            WDec::Short(n) => {
                if len < 2 {
                    self.disk.bytes.extend_from_slice(buf);
                    self.stats.inc(C::w_accept);
                    Ok(len)
                } else {
                    let n = n.clamp(1, len - 1);
                    self.disk.bytes.extend_from_slice(&buf[..n]);
                    self.stats.inc(C::w_short);
                    fault_kind = Some(0);
                    Ok(n)
                }
            }
            WDec::Eintr => {
                self.stats.inc(C::w_eintr);
                fault_kind = Some(1);
                Err(io::Error::new(io::ErrorKind::Interrupted, "sim: EINTR"))
            }
            WDec::HardTransient => {
                self.stats.inc(C::w_hard_transient);
                fault_kind = Some(2);
                Err(other_err("sim: transient write error"))
            }
            WDec::HardSticky => {
                self.ctl.sticky = true;
                self.stats.inc(C::w_hard_sticky);
                fault_kind = Some(3);
                Err(other_err("sim: sticky write error"))
            }
            WDec::Full => {
                self.stats.inc(C::w_full);
                fault_kind = Some(4);
                Ok(0)
            }
            WDec::Lost => {
                self.disk.corrupted = true;
                self.stats.inc(C::w_lost);
                fault_kind = Some(5);
                Ok(len)
            }
            WDec::Crash { keep_call, keep_tail } => {
                let k = keep_call.min(len);
                self.disk.bytes.extend_from_slice(&buf[..k]);
                if self.ctl.sync_each_write {
                    self.disk.durable = self.disk.bytes.len();
                }
                if self.ctl.prev_dec_kind == 0 {
                    self.stats.inc(C::probe_crash_inside_short_write);
                }
                self.disk.crash(keep_tail);
                self.stats.inc(C::w_crash);
                fault_kind = Some(6);
                Err(other_err("sim: process crashed"))
            }
        };
        if self.ctl.sync_each_write && !self.disk.crashed {
            self.disk.durable = self.disk.bytes.len();
        }
        // reach
        if let Some(k) = fault_kind {
            self.ctl.faults_delivered += 1;
            if matches!(k, 2 | 3 | 4 | 6) {
                self.ctl.terminal_delivered += 1;
                if self.ctl.prev_dec_kind == 1 {
                    self.stats.inc(C::probe_eintr_then_hard);
                }
                if self.ctl.prev_dec_kind == 0 {
                    self.stats.inc(C::probe_short_then_hard);
                }
            }
            self.ctl.fault_call_indices.push(call);
            self.stats.reach.insert((site, k, 1));
            if call == 0 {
                self.stats.inc(C::probe_fault_on_first_write);
            }
            if site == 10 || site == 11 {
                self.stats.inc(C::probe_fault_in_multidigit_fragment);
            }
        } else {
            self.stats.reach.insert((site, 11, 1));
        }
        self.ctl.last_call_fault = fault_kind;
        self.ctl.prev_dec_kind = fault_kind.unwrap_or(255);
        // event log
        self.ctl.log.byte(0x10 + fault_kind.map(|k| k + 1).unwrap_or(0));
        self.ctl.log.u64(len as u64);
        self.ctl.log.u64(match &res {
            Ok(n) => *n as u64,
            Err(_) => u64::MAX,
        });
        res
    }

    fn flush(&mut self) -> io::Result<()> {
        if self.disk.crashed {
            return Err(other_err("sim: process crashed"));
        }
        self.stats.inc(C::flush_calls);
        self.ctl.flush_calls += 1;
        if self.ctl.sticky {
            self.ctl.log.byte(0x27);
            return Err(other_err("sim: sticky write error"));
        }
        let (rng, cfg) = (&mut self.ctl.rng, &self.ctl.cfg);
        let dec = self.ctl.flush_src.next(FlushDec::Ok, || {
            let rng = rng.as_mut()?;
            if cfg.flush_crash > 0 && rng.chance(cfg.flush_crash) {
                let keep_tail = if rng.coin() { usize::MAX } else { rng.usize_below(300) };
                return Some(FlushDec::Crash { keep_tail });
            }
            if cfg.flush_err > 0 && rng.chance(cfg.flush_err) {
                return Some(FlushDec::Err);
            }
            Some(FlushDec::Ok)
        });
        match dec {
            FlushDec::Ok => {
                self.disk.durable = self.disk.bytes.len();
                self.stats.inc(C::flush_ok);
                self.ctl.log.byte(0x20);
                Ok(())
            }
            FlushDec::Err => {
                self.stats.inc(C::flush_err);
                self.ctl.faults_delivered += 1;
                self.ctl.terminal_delivered += 1;
                self.stats.reach.insert((0, 7, 1));
                self.ctl.log.byte(0x21);
                Err(other_err("sim: flush error"))
            }
            FlushDec::Crash { keep_tail } => {
                self.disk.crash(keep_tail);
                self.stats.inc(C::flush_crash);
                self.ctl.faults_delivered += 1;
                self.ctl.terminal_delivered += 1;
                self.stats.reach.insert((0, 10, 1));
                self.ctl.log.byte(0x22);
                Err(other_err("sim: process crashed"))
            }
        }
    }
}

// ------------------------------------------------------------------------------------------------
// Recording shim: the serializer's immediate sink.  It takes no decisions; it only observes the
// protocol between serializer and sink, above any BufWriter.

pub struct Shim<'j, W: io::Write> {
    pub inner: W,
    /// the bytes the record must consist of
    pub expect: &'j [u8],
    /// bytes the sink reported as accepted so far
    pub accepted: usize,
    /// first byte offset at which accepted bytes differ from `expect`
    pub diverged_at: Option<usize>,
    /// number of terminal errors (non-EINTR `Err`, or `Ok(0)`) returned to the serializer
    pub terminal_errors: usize,
    /// write calls that arrived after a terminal error had been returned
    pub writes_after_terminal: usize,
    pub eintrs: usize,
    pub calls: usize,
    pub flush_errors: usize,
}

impl<'j, W: io::Write> Shim<'j, W> {
    pub fn new(inner: W, expect: &'j [u8]) -> Self {
        Shim {
            inner,
            expect,
            accepted: 0,
            diverged_at: None,
            terminal_errors: 0,
            writes_after_terminal: 0,
            eintrs: 0,
            calls: 0,
            flush_errors: 0,
        }
    }
}

impl<'j, W: io::Write> io::Write for Shim<'j, W> {
    fn write(&mut self, buf: &[u8]) -> io::Result<usize> {
        self.calls += 1;
        if self.terminal_errors > 0 {
            self.writes_after_terminal += 1;
        }
        let r = self.inner.write(buf);
        match &r {
            Ok(0) if !buf.is_empty() => self.terminal_errors += 1,
            Ok(n) => {
                let n = *n;
                if self.diverged_at.is_none() {
                    let end = self.accepted + n;
                    if end > self.expect.len() || self.expect[self.accepted..end] != buf[..n] {
                        // locate the first differing byte
                        let mut at = self.accepted;
                        for (i, b) in buf[..n].iter().enumerate() {
                            if self.expect.get(self.accepted + i) != Some(b) {
                                at = self.accepted + i;
                                break;
                            }
                        }
                        self.diverged_at = Some(at);
                    }
                }
                self.accepted += n;
            }
            Err(e) if e.kind() == io::ErrorKind::Interrupted => self.eintrs += 1,
            Err(_) => self.terminal_errors += 1,
        }
        r
    }

    fn flush(&mut self) -> io::Result<()> {
        let r = self.inner.flush();
        if r.is_err() {
            self.flush_errors += 1;
        }
        r
    }
}

// ------------------------------------------------------------------------------------------------
// Reader between medium and deserializer

pub struct SimReader<'a> {
    pub data: &'a [u8],
    pub pos: usize,
    pub src: Source<RDec>,
    pub rng: Option<Rng>,
    pub cfg: FaultCfg,
    pub stats: &'a mut Stats,
    pub log: Fnv,
    /// position at which the first terminal fault (hard error / premature EOF) was delivered
    pub terminal_at: Option<usize>,
    pub faults_delivered: usize,
    pub hard_delivered: bool,
    pub eof_sticky: bool,
    pub nested: Nested<'a>,
    pub nested_errors: Vec<String>,
    pub reentered: usize,
}

impl<'a> SimReader<'a> {
    pub fn new(
        data: &'a [u8],
        fixed: Vec<RDec>,
        rng: Option<Rng>,
        cfg: FaultCfg,
        stats: &'a mut Stats,
    ) -> Self {
        SimReader {
            data,
            pos: 0,
            src: Source::new(fixed),
            rng,
            cfg,
            stats,
            log: Fnv::default(),
            terminal_at: None,
            faults_delivered: 0,
            hard_delivered: false,
            eof_sticky: false,
            nested: None,
            nested_errors: Vec::new(),
            reentered: 0,
        }
    }
}

impl<'a> io::Read for SimReader<'a> {
    fn read(&mut self, buf: &mut [u8]) -> io::Result<usize> {
        if buf.is_empty() {
            return Ok(0);
        }
        let left = self.data.len() - self.pos;
        self.stats.inc(C::r_calls);
        if self.eof_sticky {
            // a truncated file / closed connection stays at end of input
            self.log.byte(0x35);
            return Ok(0);
        }
        let (rng, cfg) = (&mut self.rng, &self.cfg);
        let cap = buf.len();
        let dec = self.src.next(RDec::Chunk(usize::MAX), || {
            let rng = rng.as_mut()?;
            if cfg.r_hard > 0 && rng.chance(cfg.r_hard) {
                return Some(RDec::Hard);
            }
            if cfg.r_eof > 0 && rng.chance(cfg.r_eof) {
                return Some(RDec::Eof);
            }
            if cfg.r_eintr > 0 && rng.chance(cfg.r_eintr) {
                return Some(RDec::Eintr);
            }
            if cfg.r_reenter > 0 && rng.chance(cfg.r_reenter) {
                return Some(RDec::Reenter);
            }
            Some(RDec::Chunk(1 + rng.usize_below(cfg.r_chunk_max.max(1))))
        });
        let res = match dec {
            RDec::Chunk(_) if left == 0 => {
                self.log.byte(0x34);
                Ok(0)
            }
            RDec::Chunk(n) => {
                let n = n.max(1).min(left).min(cap);
                buf[..n].copy_from_slice(&self.data[self.pos..self.pos + n]);
                self.pos += n;
                self.stats.inc(C::r_chunk);
                self.log.byte(0x30);
                Ok(n)
            }
            RDec::Reenter => {
                if let (Some(f), true) = (self.nested, reenter_enabled()) {
                    self.reentered += 1;
                    self.stats.inc(C::r_reenter);
                    match call_nested(f) {
                        None => self.stats.inc(C::nested_ops_ok),
                        Some(e) => {
                            self.stats.inc(C::nested_ops_wrong);
                            self.nested_errors.push(e);
                        }
                    }
                }
                let n = left.min(cap);
                buf[..n].copy_from_slice(&self.data[self.pos..self.pos + n]);
                self.pos += n;
                self.log.byte(0x36);
                Ok(n)
            }
            RDec::Eintr => {
                self.stats.inc(C::r_eintr);
                self.faults_delivered += 1;
                self.log.byte(0x31);
                Err(io::Error::new(io::ErrorKind::Interrupted, "sim: EINTR"))
            }
            RDec::Hard => {
                self.stats.inc(C::r_hard);
                self.faults_delivered += 1;
                self.terminal_at.get_or_insert(self.pos);
                self.hard_delivered = true;
                self.log.byte(0x32);
                Err(other_err("sim: read error"))
            }
            RDec::Eof if left == 0 => {
                self.log.byte(0x34);
                Ok(0)
            }
            RDec::Eof => {
                self.stats.inc(C::r_eof);
                self.faults_delivered += 1;
                self.terminal_at.get_or_insert(self.pos);
                self.eof_sticky = true;
                self.log.byte(0x33);
                Ok(0)
            }
        };
        self.log.u64(self.pos as u64);
        res
    }
}

// ------------------------------------------------------------------------------------------------
// Formatter sink

pub struct SimFmtSink<'a> {
    pub out: String,
    pub src: Source<FDec>,
    pub rng: Option<Rng>,
    pub cfg: FaultCfg,
    pub stats: &'a mut Stats,
    pub log: Fnv,
    pub sticky: bool,
    pub failed: usize,
    pub calls_after_failure: usize,
    pub calls: usize,
    pub nested: Nested<'a>,
    pub nested_errors: Vec<String>,
    pub reentered: usize,
    pub panicked: bool,
}

impl<'a> SimFmtSink<'a> {
    pub fn new(fixed: Vec<FDec>, rng: Option<Rng>, cfg: FaultCfg, stats: &'a mut Stats) -> Self {
        SimFmtSink {
            out: String::new(),
            src: Source::new(fixed),
            rng,
            cfg,
            stats,
            log: Fnv::default(),
            sticky: false,
            failed: 0,
            calls_after_failure: 0,
            calls: 0,
            nested: None,
            nested_errors: Vec::new(),
            reentered: 0,
            panicked: false,
        }
    }
}

impl<'a> fmt::Write for SimFmtSink<'a> {
    fn write_str(&mut self, s: &str) -> fmt::Result {
        self.calls += 1;
        self.stats.inc(C::p_calls);
        if self.failed > 0 {
            self.calls_after_failure += 1;
        }
        if self.sticky {
            let _ = self.src.next(FDec::FailSticky, || Some(FDec::FailSticky));
            self.failed += 1;
            self.log.byte(0x43);
            return Err(fmt::Error);
        }
        let (rng, cfg) = (&mut self.rng, &self.cfg);
        let dec = self.src.next(FDec::Accept, || {
            let rng = rng.as_mut()?;
            if cfg.f_fail_s > 0 && rng.chance(cfg.f_fail_s) {
                return Some(FDec::FailSticky);
            }
            if cfg.f_fail_t > 0 && rng.chance(cfg.f_fail_t) {
                return Some(FDec::FailTransient);
            }
            if cfg.f_reenter > 0 && rng.chance(cfg.f_reenter) {
                return Some(FDec::Reenter);
            }
            if cfg.f_panic > 0 && rng.chance(cfg.f_panic) {
                return Some(FDec::Panic);
            }
            Some(FDec::Accept)
        });
        let site = site_class(s.as_bytes());
        self.log.u64(s.len() as u64);
        match dec {
            FDec::Accept => {
                self.out.push_str(s);
                self.stats.inc(C::p_accept);
                self.stats.reach.insert((site, 11, 0));
                self.log.byte(0x40);
                Ok(())
            }
            FDec::Reenter => {
                if let (Some(f), true) = (self.nested, reenter_enabled()) {
                    self.reentered += 1;
                    self.stats.inc(C::p_reenter);
                    self.stats.reach.insert((site, 12, 0));
                    match call_nested(f) {
                        None => self.stats.inc(C::nested_ops_ok),
                        Some(e) => {
                            self.stats.inc(C::nested_ops_wrong);
                            self.nested_errors.push(e);
                        }
                    }
                }
                self.out.push_str(s);
                self.log.byte(0x44);
                Ok(())
            }
            FDec::Panic => {
                self.failed += 1;
                self.panicked = true;
                self.stats.inc(C::p_sink_panic);
                self.stats.reach.insert((site, 13, 0));
                self.log.byte(0x45);
                std::panic::panic_any(SINK_PANIC);
            }
            FDec::FailTransient => {
                self.failed += 1;
                self.stats.inc(C::p_fail_transient);
                self.stats.reach.insert((site, 8, 0));
                self.log.byte(0x41);
                Err(fmt::Error)
            }
            FDec::FailSticky => {
                self.failed += 1;
                self.sticky = true;
                self.stats.inc(C::p_fail_sticky);
                self.stats.reach.insert((site, 9, 0));
                self.log.byte(0x42);
                Err(fmt::Error)
            }
        }
    }
}
