//! `simpack`: a second serde data format, written for the simulator because no format other than
//! serde_json is in the cargo cache.  It is what a MessagePack/CBOR-like format looks like to a
//! `Serialize`/`Deserialize` implementation:
//!
//! * **not human-readable** (`is_human_readable() == false`) - implementations that choose
//!   another wire shape for binary formats take that branch here and nowhere under serde_json;
//! * **self-describing** (one tag byte per value, `deserialize_any` works) - so serde's buffering
//!   containers (untagged and internally tagged enums, `#[serde(flatten)]`) can be used with it;
//! * **streaming** over `io::Write` / `io::Read` - every byte goes through the simulated writer
//!   and reader, so the same short writes, EINTRs, errors, crashes and fragmented reads apply;
//! * strings are length-prefixed, so `collect_str` has to buffer (serde's default `to_string`),
//!   unlike serde_json, which streams `Display` output into the writer.
//!
//! Wire format: `N` unit/none, `T`/`F` bool, `U`+8 bytes LE, `I`+8 bytes LE, `D`+8 bytes LE,
//! `S`+u32 LE length+UTF-8, `B`+u32 LE length+bytes, `A` items `E`, `M` (key value)* `E`.
//! `Some(x)` is `x`; a unit variant is its name as `S`; any other variant is `M name content E`;
//! structs are maps keyed by field name; tuples are sequences.  This is the stub side of the
//! seam: it is trusted, and its own round trip on plain strings is checked at start-up
//! (`self_test`).

use serde::de::{self, DeserializeSeed, IntoDeserializer, MapAccess, SeqAccess, VariantAccess, Visitor};
use serde::ser::{self, Serialize};
use std::fmt;
use std::io;

#[derive(Debug)]
pub enum Error {
    Io(io::Error),
    Msg(String),
    Eof,
    Syntax(&'static str),
}

impl fmt::Display for Error {
    fn fmt(&self, f: &mut fmt::Formatter<'_>) -> fmt::Result {
        match self {
            Error::Io(e) => write!(f, "io: {}", e),
            Error::Msg(m) => write!(f, "{}", m),
            Error::Eof => write!(f, "unexpected end of record"),
            Error::Syntax(s) => write!(f, "malformed record: {}", s),
        }
    }
}
impl std::error::Error for Error {}
impl ser::Error for Error {
    fn custom<T: fmt::Display>(msg: T) -> Self {
        Error::Msg(msg.to_string())
    }
}
impl de::Error for Error {
    fn custom<T: fmt::Display>(msg: T) -> Self {
        Error::Msg(msg.to_string())
    }
}

type Res<T> = Result<T, Error>;

// ------------------------------------------------------------------------------------------------
// Serializer

pub struct Serializer<W: io::Write> {
    w: W,
}

impl<W: io::Write> Serializer<W> {
    pub fn new(w: W) -> Self {
        Serializer { w }
    }
    fn put(&mut self, b: &[u8]) -> Res<()> {
        // one write_all per fragment: Interrupted is retried by std, every other error is terminal
        self.w.write_all(b).map_err(Error::Io)
    }
    fn tag(&mut self, t: u8) -> Res<()> {
        self.put(&[t])
    }
}

pub fn to_writer<W: io::Write, T: Serialize + ?Sized>(w: W, v: &T) -> Res<()> {
    let mut s = Serializer::new(w);
    v.serialize(&mut s)
}

pub fn to_vec<T: Serialize + ?Sized>(v: &T) -> Res<Vec<u8>> {
    let mut out = Vec::new();
    to_writer(&mut out, v)?;
    Ok(out)
}

pub struct Compound<'a, W: io::Write> {
    s: &'a mut Serializer<W>,
    /// a variant wrapper `M name <content> E` is open around this compound
    wrapped: bool,
}

impl<'a, W: io::Write> Compound<'a, W> {
    fn finish(self) -> Res<()> {
        self.s.tag(b'E')?;
        if self.wrapped {
            self.s.tag(b'E')?;
        }
        Ok(())
    }
}

impl<'a, W: io::Write> ser::Serializer for &'a mut Serializer<W> {
    type Ok = ();
    type Error = Error;
    type SerializeSeq = Compound<'a, W>;
    type SerializeTuple = Compound<'a, W>;
    type SerializeTupleStruct = Compound<'a, W>;
    type SerializeTupleVariant = Compound<'a, W>;
    type SerializeMap = Compound<'a, W>;
    type SerializeStruct = Compound<'a, W>;
    type SerializeStructVariant = Compound<'a, W>;

    fn is_human_readable(&self) -> bool {
        false
    }

    fn serialize_bool(self, v: bool) -> Res<()> {
        self.tag(if v { b'T' } else { b'F' })
    }
    fn serialize_i8(self, v: i8) -> Res<()> {
        self.serialize_i64(v as i64)
    }
    fn serialize_i16(self, v: i16) -> Res<()> {
        self.serialize_i64(v as i64)
    }
    fn serialize_i32(self, v: i32) -> Res<()> {
        self.serialize_i64(v as i64)
    }
    fn serialize_i64(self, v: i64) -> Res<()> {
        self.tag(b'I')?;
        self.put(&v.to_le_bytes())
    }
    fn serialize_u8(self, v: u8) -> Res<()> {
        self.serialize_u64(v as u64)
    }
    fn serialize_u16(self, v: u16) -> Res<()> {
        self.serialize_u64(v as u64)
    }
    fn serialize_u32(self, v: u32) -> Res<()> {
        self.serialize_u64(v as u64)
    }
    fn serialize_u64(self, v: u64) -> Res<()> {
        self.tag(b'U')?;
        self.put(&v.to_le_bytes())
    }
    fn serialize_f32(self, v: f32) -> Res<()> {
        self.serialize_f64(v as f64)
    }
    fn serialize_f64(self, v: f64) -> Res<()> {
        self.tag(b'D')?;
        self.put(&v.to_le_bytes())
    }
    fn serialize_char(self, v: char) -> Res<()> {
        let mut b = [0u8; 4];
        self.serialize_str(v.encode_utf8(&mut b))
    }
    fn serialize_str(self, v: &str) -> Res<()> {
        self.tag(b'S')?;
        self.put(&(v.len() as u32).to_le_bytes())?;
        self.put(v.as_bytes())
    }
    fn serialize_bytes(self, v: &[u8]) -> Res<()> {
        self.tag(b'B')?;
        self.put(&(v.len() as u32).to_le_bytes())?;
        self.put(v)
    }
    fn serialize_none(self) -> Res<()> {
        self.tag(b'N')
    }
    fn serialize_some<T: Serialize + ?Sized>(self, v: &T) -> Res<()> {
        v.serialize(self)
    }
    fn serialize_unit(self) -> Res<()> {
        self.tag(b'N')
    }
    fn serialize_unit_struct(self, _n: &'static str) -> Res<()> {
        self.tag(b'N')
    }
    fn serialize_unit_variant(self, _n: &'static str, _i: u32, variant: &'static str) -> Res<()> {
        self.serialize_str(variant)
    }
    fn serialize_newtype_struct<T: Serialize + ?Sized>(self, _n: &'static str, v: &T) -> Res<()> {
        v.serialize(self)
    }
    fn serialize_newtype_variant<T: Serialize + ?Sized>(
        self,
        _n: &'static str,
        _i: u32,
        variant: &'static str,
        v: &T,
    ) -> Res<()> {
        self.tag(b'M')?;
        (&mut *self).serialize_str(variant)?;
        v.serialize(&mut *self)?;
        self.tag(b'E')
    }
    fn serialize_seq(self, _len: Option<usize>) -> Res<Compound<'a, W>> {
        self.tag(b'A')?;
        Ok(Compound { s: self, wrapped: false })
    }
    fn serialize_tuple(self, len: usize) -> Res<Compound<'a, W>> {
        self.serialize_seq(Some(len))
    }
    fn serialize_tuple_struct(self, _n: &'static str, len: usize) -> Res<Compound<'a, W>> {
        self.serialize_seq(Some(len))
    }
    fn serialize_tuple_variant(
        self,
        _n: &'static str,
        _i: u32,
        variant: &'static str,
        _len: usize,
    ) -> Res<Compound<'a, W>> {
        self.tag(b'M')?;
        (&mut *self).serialize_str(variant)?;
        self.tag(b'A')?;
        Ok(Compound { s: self, wrapped: true })
    }
    fn serialize_map(self, _len: Option<usize>) -> Res<Compound<'a, W>> {
        self.tag(b'M')?;
        Ok(Compound { s: self, wrapped: false })
    }
    fn serialize_struct(self, _n: &'static str, _len: usize) -> Res<Compound<'a, W>> {
        self.tag(b'M')?;
        Ok(Compound { s: self, wrapped: false })
    }
    fn serialize_struct_variant(
        self,
        _n: &'static str,
        _i: u32,
        variant: &'static str,
        _len: usize,
    ) -> Res<Compound<'a, W>> {
        self.tag(b'M')?;
        (&mut *self).serialize_str(variant)?;
        self.tag(b'M')?;
        Ok(Compound { s: self, wrapped: true })
    }
}

impl<'a, W: io::Write> ser::SerializeSeq for Compound<'a, W> {
    type Ok = ();
    type Error = Error;
    fn serialize_element<T: Serialize + ?Sized>(&mut self, v: &T) -> Res<()> {
        v.serialize(&mut *self.s)
    }
    fn end(self) -> Res<()> {
        self.finish()
    }
}
impl<'a, W: io::Write> ser::SerializeTuple for Compound<'a, W> {
    type Ok = ();
    type Error = Error;
    fn serialize_element<T: Serialize + ?Sized>(&mut self, v: &T) -> Res<()> {
        v.serialize(&mut *self.s)
    }
    fn end(self) -> Res<()> {
        self.finish()
    }
}
impl<'a, W: io::Write> ser::SerializeTupleStruct for Compound<'a, W> {
    type Ok = ();
    type Error = Error;
    fn serialize_field<T: Serialize + ?Sized>(&mut self, v: &T) -> Res<()> {
        v.serialize(&mut *self.s)
    }
    fn end(self) -> Res<()> {
        self.finish()
    }
}
impl<'a, W: io::Write> ser::SerializeTupleVariant for Compound<'a, W> {
    type Ok = ();
    type Error = Error;
    fn serialize_field<T: Serialize + ?Sized>(&mut self, v: &T) -> Res<()> {
        v.serialize(&mut *self.s)
    }
    fn end(self) -> Res<()> {
        self.finish()
    }
}
impl<'a, W: io::Write> ser::SerializeMap for Compound<'a, W> {
    type Ok = ();
    type Error = Error;
    fn serialize_key<T: Serialize + ?Sized>(&mut self, k: &T) -> Res<()> {
        k.serialize(&mut *self.s)
    }
    fn serialize_value<T: Serialize + ?Sized>(&mut self, v: &T) -> Res<()> {
        v.serialize(&mut *self.s)
    }
    fn end(self) -> Res<()> {
        self.finish()
    }
}
impl<'a, W: io::Write> ser::SerializeStruct for Compound<'a, W> {
    type Ok = ();
    type Error = Error;
    fn serialize_field<T: Serialize + ?Sized>(&mut self, k: &'static str, v: &T) -> Res<()> {
        ser::Serializer::serialize_str(&mut *self.s, k)?;
        v.serialize(&mut *self.s)
    }
    fn end(self) -> Res<()> {
        self.finish()
    }
}
impl<'a, W: io::Write> ser::SerializeStructVariant for Compound<'a, W> {
    type Ok = ();
    type Error = Error;
    fn serialize_field<T: Serialize + ?Sized>(&mut self, k: &'static str, v: &T) -> Res<()> {
        ser::Serializer::serialize_str(&mut *self.s, k)?;
        v.serialize(&mut *self.s)
    }
    fn end(self) -> Res<()> {
        self.finish()
    }
}

// ------------------------------------------------------------------------------------------------
// Deserializer

pub struct Deserializer<R: io::Read> {
    r: R,
    peeked: Option<u8>,
    /// hand strings to the visitor as `visit_str` on a transient buffer (as a format with an
    /// internal scratch buffer does) instead of `visit_string`
    pub transient_strings: bool,
}

impl<R: io::Read> Deserializer<R> {
    pub fn new(r: R) -> Self {
        Deserializer { r, peeked: None, transient_strings: false }
    }

    fn fill(&mut self, buf: &mut [u8]) -> Res<()> {
        let mut got = 0;
        while got < buf.len() {
            match self.r.read(&mut buf[got..]) {
                Ok(0) => return Err(Error::Eof),
                Ok(n) => got += n,
                Err(e) if e.kind() == io::ErrorKind::Interrupted => {}
                Err(e) => return Err(Error::Io(e)),
            }
        }
        Ok(())
    }
    fn byte(&mut self) -> Res<u8> {
        if let Some(b) = self.peeked.take() {
            return Ok(b);
        }
        let mut b = [0u8; 1];
        self.fill(&mut b)?;
        Ok(b[0])
    }
    fn peek(&mut self) -> Res<u8> {
        if let Some(b) = self.peeked {
            return Ok(b);
        }
        let b = self.byte()?;
        self.peeked = Some(b);
        Ok(b)
    }
    fn eight(&mut self) -> Res<[u8; 8]> {
        let mut b = [0u8; 8];
        self.fill(&mut b)?;
        Ok(b)
    }
    fn blob(&mut self) -> Res<Vec<u8>> {
        let mut l = [0u8; 4];
        self.fill(&mut l)?;
        let len = u32::from_le_bytes(l) as usize;
        // a corrupted length must not become a huge allocation: read in bounded pieces
        let mut out = Vec::with_capacity(len.min(4096));
        let mut left = len;
        let mut piece = [0u8; 512];
        while left > 0 {
            let n = left.min(piece.len());
            self.fill(&mut piece[..n])?;
            out.extend_from_slice(&piece[..n]);
            left -= n;
        }
        Ok(out)
    }
    fn string(&mut self) -> Res<String> {
        String::from_utf8(self.blob()?).map_err(|_| Error::Syntax("string is not UTF-8"))
    }
    /// A visitor that knows how many items it wants (a tuple) stops without asking for the end
    /// marker; it must be the next byte.
    fn close(&mut self, done: bool) -> Res<()> {
        if done {
            return Ok(());
        }
        match self.byte()? {
            b'E' => Ok(()),
            _ => Err(Error::Syntax("more items than the type takes")),
        }
    }
    /// nothing may follow the value
    pub fn end(&mut self) -> Res<()> {
        if self.peeked.is_some() {
            return Err(Error::Syntax("trailing bytes"));
        }
        let mut b = [0u8; 1];
        loop {
            match self.r.read(&mut b) {
                Ok(0) => return Ok(()),
                Ok(_) => return Err(Error::Syntax("trailing bytes")),
                Err(e) if e.kind() == io::ErrorKind::Interrupted => {}
                Err(e) => return Err(Error::Io(e)),
            }
        }
    }
}

pub fn from_reader<'de, R: io::Read, T: de::Deserialize<'de>>(r: R) -> Res<T> {
    let mut d = Deserializer::new(r);
    let v = T::deserialize(&mut d)?;
    d.end()?;
    Ok(v)
}

impl<'de, 'a, R: io::Read> de::Deserializer<'de> for &'a mut Deserializer<R> {
    type Error = Error;

    fn is_human_readable(&self) -> bool {
        false
    }

    fn deserialize_any<V: Visitor<'de>>(self, visitor: V) -> Res<V::Value> {
        match self.byte()? {
            b'N' => visitor.visit_unit(),
            b'T' => visitor.visit_bool(true),
            b'F' => visitor.visit_bool(false),
            b'U' => visitor.visit_u64(u64::from_le_bytes(self.eight()?)),
            b'I' => visitor.visit_i64(i64::from_le_bytes(self.eight()?)),
            b'D' => visitor.visit_f64(f64::from_le_bytes(self.eight()?)),
            b'S' => {
                let text = self.string()?;
                if self.transient_strings {
                    visitor.visit_str(&text)
                } else {
                    visitor.visit_string(text)
                }
            }
            b'B' => visitor.visit_byte_buf(self.blob()?),
            b'A' => {
                let mut done = false;
                let v = visitor.visit_seq(Items { d: &mut *self, done: &mut done })?;
                self.close(done)?;
                Ok(v)
            }
            b'M' => {
                let mut done = false;
                let v = visitor.visit_map(Items { d: &mut *self, done: &mut done })?;
                self.close(done)?;
                Ok(v)
            }
            _ => Err(Error::Syntax("unknown tag")),
        }
    }

    fn deserialize_option<V: Visitor<'de>>(self, visitor: V) -> Res<V::Value> {
        if self.peek()? == b'N' {
            self.byte()?;
            visitor.visit_none()
        } else {
            visitor.visit_some(self)
        }
    }

    fn deserialize_newtype_struct<V: Visitor<'de>>(self, _n: &'static str, visitor: V) -> Res<V::Value> {
        visitor.visit_newtype_struct(self)
    }

    fn deserialize_enum<V: Visitor<'de>>(
        self,
        _n: &'static str,
        _variants: &'static [&'static str],
        visitor: V,
    ) -> Res<V::Value> {
        match self.byte()? {
            b'S' => {
                let name = self.string()?;
                visitor.visit_enum(name.into_deserializer())
            }
            b'M' => {
                let v = visitor.visit_enum(Variant { d: &mut *self })?;
                match self.byte()? {
                    b'E' => Ok(v),
                    _ => Err(Error::Syntax("variant wrapper holds more than one entry")),
                }
            }
            _ => Err(Error::Syntax("expected a variant")),
        }
    }

    serde::forward_to_deserialize_any! {
        bool i8 i16 i32 i64 i128 u8 u16 u32 u64 u128 f32 f64 char str string bytes byte_buf
        unit unit_struct seq tuple tuple_struct map struct identifier ignored_any
    }
}

struct Items<'a, R: io::Read> {
    d: &'a mut Deserializer<R>,
    /// the end marker has been consumed
    done: &'a mut bool,
}

impl<'de, 'a, R: io::Read> SeqAccess<'de> for Items<'a, R> {
    type Error = Error;
    fn next_element_seed<T: DeserializeSeed<'de>>(&mut self, seed: T) -> Res<Option<T::Value>> {
        if *self.done {
            return Ok(None);
        }
        if self.d.peek()? == b'E' {
            self.d.byte()?;
            *self.done = true;
            return Ok(None);
        }
        seed.deserialize(&mut *self.d).map(Some)
    }
}

impl<'de, 'a, R: io::Read> MapAccess<'de> for Items<'a, R> {
    type Error = Error;
    fn next_key_seed<K: DeserializeSeed<'de>>(&mut self, seed: K) -> Res<Option<K::Value>> {
        if *self.done {
            return Ok(None);
        }
        if self.d.peek()? == b'E' {
            self.d.byte()?;
            *self.done = true;
            return Ok(None);
        }
        seed.deserialize(&mut *self.d).map(Some)
    }
    fn next_value_seed<V: DeserializeSeed<'de>>(&mut self, seed: V) -> Res<V::Value> {
        seed.deserialize(&mut *self.d)
    }
}

struct Variant<'a, R: io::Read> {
    d: &'a mut Deserializer<R>,
}

impl<'de, 'a, R: io::Read> de::EnumAccess<'de> for Variant<'a, R> {
    type Error = Error;
    type Variant = Self;
    fn variant_seed<V: DeserializeSeed<'de>>(self, seed: V) -> Res<(V::Value, Self)> {
        let v = seed.deserialize(&mut *self.d)?;
        Ok((v, self))
    }
}

impl<'de, 'a, R: io::Read> VariantAccess<'de> for Variant<'a, R> {
    type Error = Error;
    fn unit_variant(self) -> Res<()> {
        de::Deserialize::deserialize(&mut *self.d)
    }
    fn newtype_variant_seed<T: DeserializeSeed<'de>>(self, seed: T) -> Res<T::Value> {
        seed.deserialize(&mut *self.d)
    }
    fn tuple_variant<V: Visitor<'de>>(self, _len: usize, visitor: V) -> Res<V::Value> {
        de::Deserializer::deserialize_any(&mut *self.d, visitor)
    }
    fn struct_variant<V: Visitor<'de>>(self, _f: &'static [&'static str], visitor: V) -> Res<V::Value> {
        de::Deserializer::deserialize_any(&mut *self.d, visitor)
    }
}

// ------------------------------------------------------------------------------------------------

/// The format's own round trip on values that involve no code under test.  A failure here is a
/// harness error (exit 2), never a violation.
pub fn self_test() -> Result<(), String> {
    use serde::{Deserialize, Serialize};
    #[derive(Serialize, Deserialize, PartialEq, Debug, Clone)]
    struct Inner {
        v: String,
    }
    #[derive(Serialize, Deserialize, PartialEq, Debug, Clone)]
    struct Flat {
        name: String,
        #[serde(flatten)]
        inner: Inner,
    }
    #[derive(Serialize, Deserialize, PartialEq, Debug, Clone)]
    #[serde(untagged)]
    enum Un {
        Count(u64),
        Item(String),
    }
    #[derive(Serialize, Deserialize, PartialEq, Debug, Clone)]
    #[serde(tag = "kind")]
    enum Tg {
        Pin { v: String },
        Other,
    }
    #[derive(Serialize, Deserialize, PartialEq, Debug, Clone)]
    enum Ext {
        A,
        B(String),
        C(u8, String),
        D { x: Option<String> },
    }
    #[derive(Serialize, Deserialize, PartialEq, Debug, Clone)]
    struct All {
        s: String,
        l: Vec<String>,
        o: Option<String>,
        n: Option<String>,
        m: std::collections::BTreeMap<String, u64>,
        f: Flat,
        u: Vec<Un>,
        t: Vec<Tg>,
        e: Vec<Ext>,
        t3: (u8, i32, bool),
    }
    let v = All {
        s: "1.2.3-a.b+c".into(),
        l: vec!["".into(), ">=1.0.0 <2.0.0||3.x".into()],
        o: Some("x".into()),
        n: None,
        m: [("k".to_string(), 7u64)].into_iter().collect(),
        f: Flat { name: "pkg".into(), inner: Inner { v: "9.9.9".into() } },
        u: vec![Un::Count(3), Un::Item("1.0.0".into())],
        t: vec![Tg::Pin { v: "2.0.0".into() }, Tg::Other],
        e: vec![Ext::A, Ext::B("b".into()), Ext::C(1, "c".into()), Ext::D { x: None }],
        t3: (1, -2, true),
    };
    let bytes = to_vec(&v).map_err(|e| format!("simpack self-test: serialise: {}", e))?;
    let back: All = from_reader(&bytes[..]).map_err(|e| format!("simpack self-test: deserialise: {}", e))?;
    if back != v {
        return Err(format!("simpack self-test: {:?} != {:?}", back, v));
    }
    // one byte at a time
    struct OneByte<'a>(&'a [u8]);
    impl<'a> io::Read for OneByte<'a> {
        fn read(&mut self, buf: &mut [u8]) -> io::Result<usize> {
            if self.0.is_empty() || buf.is_empty() {
                return Ok(0);
            }
            buf[0] = self.0[0];
            self.0 = &self.0[1..];
            Ok(1)
        }
    }
    let back: All = from_reader(OneByte(&bytes)).map_err(|e| format!("simpack self-test: deserialise bytewise: {}", e))?;
    if back != v {
        return Err("simpack self-test: bytewise read differs".into());
    }
    // every strict prefix is rejected, and so is a trailing byte
    for cut in 0..bytes.len() {
        if from_reader::<_, All>(&bytes[..cut]).is_ok() {
            return Err(format!("simpack self-test: prefix of {} bytes accepted", cut));
        }
    }
    let mut longer = bytes.clone();
    longer.push(b'N');
    if from_reader::<_, All>(&longer[..]).is_ok() {
        return Err("simpack self-test: trailing byte accepted".into());
    }
    Ok(())
}
