//! One simulated run: build the value, print it into a failing formatter sink, persist it through
//! serde_json onto the simulated medium under the write schedule, crash / corrupt, recover through
//! every planned delivery mode under its read schedule, and check the invariants of DESIGN §2.5.

use crate::plan::*;
use crate::prng::{Fnv, Rng};
use crate::stats::{Stats, C};
use crate::stubs::*;
use crate::values::*;
use nodejs_semver::{Range, Version};
use serde::de::value::{BorrowedStrDeserializer, Error as ValueError};
use serde::de::{DeserializeOwned, IntoDeserializer};
use serde::{Deserialize, Serialize};
use std::cell::RefCell;
use std::fmt::{self, Write as _};
use std::io::{self, Write as _};
use std::panic::{catch_unwind, AssertUnwindSafe};
use std::str::FromStr;

thread_local! {
    static LAST_PANIC: RefCell<String> = RefCell::new(String::new());
    /// > 0 while code under test runs inside `guarded`; a panic elsewhere is a harness bug and
    /// is printed
    static GUARD_DEPTH: std::cell::Cell<u32> = std::cell::Cell::new(0);
}

pub fn install_quiet_panic_hook() {
    std::panic::set_hook(Box::new(|info| {
        let msg = if let Some(s) = info.payload().downcast_ref::<&str>() {
            (*s).to_string()
        } else if let Some(s) = info.payload().downcast_ref::<String>() {
            s.clone()
        } else {
            "<non-string panic payload>".to_string()
        };
        let loc = info
            .location()
            .map(|l| format!(" at {}:{}", l.file(), l.line()))
            .unwrap_or_default();
        if GUARD_DEPTH.with(|d| d.get()) == 0 {
            eprintln!("HARNESS-ERROR: panic outside guarded code: {}{}", msg, loc);
        }
        LAST_PANIC.with(|p| *p.borrow_mut() = format!("{}{}", msg, loc));
    }));
}

fn last_panic() -> String {
    LAST_PANIC.with(|p| p.borrow().clone())
}

pub fn guarded<R>(f: impl FnOnce() -> R) -> Result<R, String> {
    GUARD_DEPTH.with(|d| d.set(d.get() + 1));
    let r = catch_unwind(AssertUnwindSafe(f));
    GUARD_DEPTH.with(|d| d.set(d.get() - 1));
    r.map_err(|_| last_panic())
}

#[derive(Clone, Debug, Serialize, Deserialize, PartialEq, Eq)]
pub struct Violation {
    /// stable class name, e.g. "W2-acked-after-fault"; minimisation preserves it
    pub class: String,
    pub detail: String,
    /// the printed form of the item involved, when there is one (used by known-finding matching)
    pub printed: Option<String>,
    /// the text the item was parsed from, when it came from text (known-finding matching)
    #[serde(default)]
    pub source: Option<String>,
}

fn viol(class: &str, detail: String, printed: Option<&str>) -> Violation {
    Violation {
        class: class.to_string(),
        detail,
        printed: printed.map(|s| s.to_string()),
        source: None,
    }
}

/// When set, advisory observations (re-entrancy, sink-protocol, robustness on corrupted input)
/// count as violations; by default they are notes (see the end of `execute_rec`).
pub static STRICT_ADVISORY: std::sync::atomic::AtomicBool = std::sync::atomic::AtomicBool::new(false);

pub struct Outcome {
    /// every decision actually taken: replaying it reproduces the run without a PRNG
    pub effective: Plan,
    pub violations: Vec<Violation>,
    /// Observations of a run in which a stub re-entered the crate (a sink or reader that itself
    /// prints / serialises / deserialises another value).  C12 and C13 quantify over values, not
    /// over calling contexts, so a tree whose printing is not re-entrant (say, a thread-local
    /// render buffer borrowed across the sink call) still satisfies them as stated.  These are
    /// reported as notes and never change the verdict.
    pub advisory: Vec<Violation>,
    pub log_digest: u64,
    pub nontrivial: bool,
    pub dedup_key: u64,
    pub built: bool,
    pub summary: serde_json::Value,
    pub counts: Counts,
}

/// Sizes of the fault-free call sequences, used by the single-fault enumeration.
#[derive(Clone, Debug, Default)]
pub struct Counts {
    pub fmt_calls: usize,
    /// length of the buffer of each SimWriter::write call
    pub write_lens: Vec<usize>,
    pub flush_calls: usize,
    /// SimReader::read calls per planned delivery (0 for in-memory deliveries)
    pub read_calls: Vec<usize>,
    pub record_len: usize,
    pub data_len: usize,
}

pub struct Search {
    pub rng: Rng,
    pub cfg: FaultCfg,
}

// ------------------------------------------------------------------------------------------------
// Item abstraction over Version / Range

pub trait Item: Serialize + DeserializeOwned + fmt::Display + FromStr + Clone {
    const KIND: &'static str;
    /// C12: "the printed form is a fixed point"; C13 only: "printing is stable after one round"
    const PRINT_IS_FIXED_POINT: bool;
    /// C12: "the JSON being exactly the printed string"; C13 only: "the serde feature
    /// round-trips the same way"
    const JSON_IS_PRINTED_STRING: bool;
    /// text of the value used by re-entrant operations when it is unrelated to the outer value
    const NESTED_TEXT: &'static str;
    /// text of a sibling of the value whose printed form is `printed`
    fn nested_sibling_text(printed: &str) -> String;
    fn identical(a: &Self, b: &Self) -> bool;
    fn diff(a: &Self, b: &Self) -> String;
    /// `y` was obtained by re-reading the printed form `printed` of `x`.  `strict`: `x` came
    /// straight from the parser (or from fields), so `y` must be the same value; otherwise `x`
    /// is the result of set operations and `y` must admit the same versions.
    fn same_after_round_trip(x: &Self, y: &Self, printed: &str, strict: bool) -> Result<(), String>;
}

impl Item for Version {
    const KIND: &'static str = "version";
    const PRINT_IS_FIXED_POINT: bool = true;
    const JSON_IS_PRINTED_STRING: bool = true;
    const NESTED_TEXT: &'static str = "9.8.7-nested.1+n.2";
    fn nested_sibling_text(printed: &str) -> String {
        format!("{}+nested.7", printed.split('+').next().unwrap_or(printed))
    }
    fn identical(a: &Self, b: &Self) -> bool {
        version_identical(a, b)
    }
    fn diff(a: &Self, b: &Self) -> String {
        version_diff_text(a, b)
    }
    fn same_after_round_trip(x: &Self, y: &Self, _printed: &str, _strict: bool) -> Result<(), String> {
        if version_identical(x, y) {
            Ok(())
        } else {
            Err(version_diff_text(x, y))
        }
    }
}

impl Item for Range {
    const KIND: &'static str = "range";
    const PRINT_IS_FIXED_POINT: bool = false;
    const JSON_IS_PRINTED_STRING: bool = false;
    const NESTED_TEXT: &'static str = ">=9.8.7-nested.1 <10.0.0||11.x||<0.0.1+n";
    fn nested_sibling_text(printed: &str) -> String {
        printed.to_string()
    }
    fn identical(a: &Self, b: &Self) -> bool {
        range_identical(a, b)
    }
    fn diff(a: &Self, b: &Self) -> String {
        format!("{} [{:?}] vs {} [{:?}]", a, a, b, b)
    }
    fn same_after_round_trip(x: &Self, y: &Self, printed: &str, strict: bool) -> Result<(), String> {
        if strict && x != y {
            return Err(format!("re-read range != original: {:?} vs {:?}", y, x));
        }
        let probes = probes_for(printed);
        ranges_agree_on(x, y, &probes)
    }
}

#[derive(Clone)]
pub struct Built<T> {
    pub item: T,
    pub strict: bool,
    /// the text it was parsed from, if it was
    pub source: Option<String>,
}

pub struct Rec<T> {
    pub shape: Shape,
    pub items: Vec<Built<T>>,
}

impl<T> Rec<T> {
    pub fn items(&self) -> &[Built<T>] {
        &self.items
    }
}

// The document types.  Generic in the item so that the same definitions serialise the values
// under test (I = Version / Range) and compute the bytes the record must consist of from the
// in-memory printed strings (I = String), and decode either.

#[derive(Serialize)]
struct EntryRef<'a, I> {
    name: &'a str,
    v: &'a I,
    tags: [&'a str; 2],
}

#[derive(Deserialize)]
#[serde(bound(deserialize = "I: Deserialize<'de>"))]
struct EntryOwned<I> {
    #[allow(dead_code)]
    name: String,
    v: I,
    #[allow(dead_code)]
    tags: Vec<String>,
}

#[derive(Serialize)]
#[serde(tag = "kind")]
enum TaggedRef<'a, I> {
    Pin { v: &'a I },
}

#[derive(Deserialize)]
#[serde(tag = "kind", bound(deserialize = "I: Deserialize<'de>"))]
enum TaggedOwned<I> {
    Pin { v: I },
    #[allow(dead_code)]
    Other,
}

#[derive(Serialize)]
#[serde(untagged)]
enum UntaggedRef<'a, I> {
    Item(&'a I),
}

#[derive(Deserialize)]
#[serde(untagged, bound(deserialize = "I: Deserialize<'de>"))]
enum UntaggedOwned<I> {
    #[allow(dead_code)]
    Count(u64),
    Item(I),
}

#[derive(Serialize)]
struct InnerRef<'a, I> {
    v: &'a I,
}

#[derive(Serialize)]
struct FlattenRef<'a, I> {
    name: &'a str,
    #[serde(flatten)]
    inner: InnerRef<'a, I>,
}

#[derive(Deserialize)]
#[serde(bound(deserialize = "I: Deserialize<'de>"))]
struct InnerOwned<I> {
    v: I,
}

#[derive(Deserialize)]
#[serde(bound(deserialize = "I: Deserialize<'de>"))]
struct FlattenOwned<I> {
    #[allow(dead_code)]
    name: String,
    #[serde(flatten)]
    inner: InnerOwned<I>,
}

/// JSON object whose keys are the items, in the given order.
struct KeysOwned<I>(Vec<I>);

impl<'de, I: Deserialize<'de>> Deserialize<'de> for KeysOwned<I> {
    fn deserialize<D: serde::Deserializer<'de>>(d: D) -> Result<Self, D::Error> {
        struct V<I>(std::marker::PhantomData<I>);
        impl<'de, I: Deserialize<'de>> serde::de::Visitor<'de> for V<I> {
            type Value = KeysOwned<I>;
            fn expecting(&self, f: &mut fmt::Formatter<'_>) -> fmt::Result {
                f.write_str("a map keyed by items")
            }
            fn visit_map<A: serde::de::MapAccess<'de>>(self, mut m: A) -> Result<Self::Value, A::Error> {
                let mut out = Vec::new();
                while let Some((k, _)) = m.next_entry::<I, u64>()? {
                    out.push(k);
                }
                Ok(KeysOwned(out))
            }
        }
        d.deserialize_map(V(std::marker::PhantomData))
    }
}

struct Wire<'a, I>(Shape, &'a [&'a I]);

impl<'a, I: Serialize> Serialize for Wire<'a, I> {
    fn serialize<S: serde::Serializer>(&self, s: S) -> Result<S::Ok, S::Error> {
        let items = self.1;
        match self.0 {
            Shape::One => items[0].serialize(s),
            Shape::Many => s.collect_seq(items.iter()),
            Shape::Entry => EntryRef { name: "pkg", v: items[0], tags: ["a", "b"] }.serialize(s),
            Shape::Tagged => TaggedRef::Pin { v: items[0] }.serialize(s),
            Shape::Keyed => s.collect_map(items.iter().enumerate().map(|(i, k)| (k, i as u64))),
            Shape::Opt => Some(items[0]).serialize(s),
            Shape::Untagged => UntaggedRef::Item(items[0]).serialize(s),
            Shape::Flatten => FlattenRef { name: "pkg", inner: InnerRef { v: items[0] } }.serialize(s),
        }
    }
}

fn decode<'de, I: Deserialize<'de>, D: serde::Deserializer<'de>>(shape: Shape, d: D) -> Result<Vec<I>, D::Error> {
    match shape {
        Shape::One => I::deserialize(d).map(|t| vec![t]),
        Shape::Many => Vec::<I>::deserialize(d),
        Shape::Entry => EntryOwned::<I>::deserialize(d).map(|e| vec![e.v]),
        Shape::Tagged => TaggedOwned::<I>::deserialize(d).map(|e| match e {
            TaggedOwned::Pin { v } => vec![v],
            TaggedOwned::Other => vec![],
        }),
        Shape::Keyed => KeysOwned::<I>::deserialize(d).map(|k| k.0),
        Shape::Opt => Option::<I>::deserialize(d).map(|o| o.into_iter().collect()),
        Shape::Untagged => UntaggedOwned::<I>::deserialize(d).map(|e| match e {
            UntaggedOwned::Item(v) => vec![v],
            UntaggedOwned::Count(_) => vec![],
        }),
        Shape::Flatten => FlattenOwned::<I>::deserialize(d).map(|e| vec![e.inner.v]),
    }
}

/// What the stored bytes mean, as strings, decoded by serde_json alone (no crate code).
fn decode_strings(shape: Shape, data: &[u8]) -> Option<Vec<String>> {
    let mut de = serde_json::Deserializer::from_slice(data);
    let v = decode::<String, _>(shape, &mut de).ok()?;
    de.end().ok()?;
    Some(v)
}

/// Another writer's encoding of the same JSON document: `\uXXXX` escapes on a position-determined
/// subset of the characters inside string literals (keys included), blanks and newlines between
/// tokens.  A pure function of the document; `None` if the bytes are not JSON.
fn reencode_escaped(data: &[u8]) -> Option<String> {
    serde_json::from_slice::<serde::de::IgnoredAny>(data).ok()?;
    let compact = std::str::from_utf8(data).ok()?;
    let mut out = String::with_capacity(compact.len() * 2);
    out.push_str("  ");
    let mut in_str = false;
    let mut esc = false;
    let mut hex_left = 0u8;
    let mut k = 0usize;
    for ch in compact.chars() {
        if in_str {
            if hex_left > 0 {
                // the four hex digits of an existing \uXXXX escape are copied as they are
                out.push(ch);
                hex_left -= 1;
            } else if esc {
                out.push(ch);
                esc = false;
                if ch == 'u' {
                    hex_left = 4;
                }
            } else if ch == '\\' {
                out.push(ch);
                esc = true;
            } else if ch == '"' {
                out.push(ch);
                in_str = false;
            } else {
                k += 1;
                if (ch as u32) < 0x80 && (k % 3 == 1) {
                    let _ = write!(out, "\\u{:04x}", ch as u32);
                } else {
                    out.push(ch);
                }
            }
        } else {
            match ch {
                '"' => {
                    in_str = true;
                    k = 0;
                    out.push(ch);
                }
                ',' => out.push_str(" ,\n "),
                ':' => out.push_str(" : "),
                '[' | '{' => {
                    out.push(ch);
                    out.push(' ');
                }
                ']' | '}' => {
                    out.push(' ');
                    out.push(ch);
                }
                _ => out.push(ch),
            }
        }
    }
    out.push_str(" \n");
    Some(out)
}

struct BorrowedItem<'de>(&'de str);
impl<'de> IntoDeserializer<'de, ValueError> for BorrowedItem<'de> {
    type Deserializer = BorrowedStrDeserializer<'de, ValueError>;
    fn into_deserializer(self) -> Self::Deserializer {
        BorrowedStrDeserializer::new(self.0)
    }
}

type Decoded<T> = Result<Vec<T>, String>;

fn read_json<T: Item, R: io::Read>(shape: Shape, r: R) -> Decoded<T> {
    let mut de = serde_json::Deserializer::from_reader(r);
    match decode::<T, _>(shape, &mut de) {
        Ok(v) => de.end().map(|_| v).map_err(|e| e.to_string()),
        Err(e) => Err(e.to_string()),
    }
}

struct ReadResult<T> {
    result: Result<Decoded<T>, String>, // outer Err = panic message
    terminal_at: Option<usize>,
    read_faults: usize,
    made: Vec<RDec>,
    log: u64,
    data_len: usize,
    /// what the reader saw before a premature EOF, if one was delivered
    eof_prefix: Option<Vec<u8>>,
    hard_error: bool,
    nested_errors: Vec<String>,
    reentered: usize,
}

/// `deserialize_in_place` into storage that already holds `seed` (clones of it).
fn decode_in_place<'de, T: Item, D: serde::Deserializer<'de>>(shape: Shape, d: D, seed: &T) -> Result<Vec<T>, D::Error> {
    match shape {
        Shape::One => {
            let mut slot = seed.clone();
            Deserialize::deserialize_in_place(d, &mut slot)?;
            Ok(vec![slot])
        }
        Shape::Many => {
            let mut v: Vec<T> = vec![seed.clone(), seed.clone(), seed.clone()];
            Deserialize::deserialize_in_place(d, &mut v)?;
            Ok(v)
        }
        Shape::Opt => {
            let mut o: Option<T> = Some(seed.clone());
            Deserialize::deserialize_in_place(d, &mut o)?;
            Ok(o.into_iter().collect())
        }
        _ => decode::<T, D>(shape, d),
    }
}

/// `None` in `result` = this delivery does not apply to these bytes (reported as skipped).
fn run_delivery<T: Item>(
    shape: Shape,
    data: &[u8],
    rp: &ReadPlan,
    search: Option<(Rng, &FaultCfg)>,
    nested: Nested<'_>,
    in_place_seed: Option<&T>,
    stats: &mut Stats,
) -> (ReadResult<T>, bool) {
    let e2s = |e: &dyn fmt::Display| e.to_string();
    let mut out = ReadResult {
        result: Ok(Err(String::new())),
        terminal_at: None,
        read_faults: 0,
        made: vec![],
        log: 0,
        data_len: data.len(),
        eof_prefix: None,
        hard_error: false,
        nested_errors: Vec::new(),
        reentered: 0,
    };
    // Deliveries that go through serde_json::Value, or that re-encode the document, presuppose a
    // well-formed JSON document.  On bytes that are not one (a bit flip put a raw control
    // character into a string, say) they do not apply: serde_json's typed entry points validate
    // less than `Value` does for some hints (a bytes hint skips string validation), so a
    // disagreement there says nothing about the crate.
    let escaped: Option<String> = match rp.delivery {
        Delivery::EscapedStr | Delivery::EscapedReader => match reencode_escaped(data) {
            Some(e) => Some(e),
            None => return (out, false),
        },
        _ => None,
    };
    let in_place = matches!(rp.delivery, Delivery::InPlaceStr | Delivery::InPlaceReader);
    if in_place && in_place_seed.is_none() {
        return (out, false);
    }
    stats.inc(match rp.delivery {
        Delivery::Reader => C::dl_reader,
        Delivery::BufReader(_) => C::dl_bufreader,
        Delivery::Str => C::dl_str,
        Delivery::Value => C::dl_value,
        Delivery::DeStr => C::dl_destr,
        Delivery::DeString => C::dl_destring,
        Delivery::DeBorrowed => C::dl_deborrowed,
        Delivery::EscapedStr => C::dl_escaped_str,
        Delivery::EscapedReader => C::dl_escaped_reader,
        Delivery::InPlaceStr | Delivery::InPlaceReader => C::dl_in_place,
    });
    match rp.delivery {
        Delivery::Reader | Delivery::BufReader(_) | Delivery::EscapedReader | Delivery::InPlaceReader => {
            let bytes: &[u8] = match &escaped {
                Some(e) => e.as_bytes(),
                None => data,
            };
            out.data_len = bytes.len();
            let (rng, cfg) = match search {
                Some((r, c)) => (Some(r), c.clone()),
                None => (None, FaultCfg::none()),
            };
            let mut reader = SimReader::new(bytes, rp.sched.clone(), rng, cfg, stats);
            reader.nested = nested;
            let res = guarded(|| match rp.delivery {
                Delivery::BufReader(cap) => {
                    let br = io::BufReader::with_capacity(cap.max(1), &mut reader);
                    read_json::<T, _>(shape, br)
                }
                Delivery::InPlaceReader => {
                    let mut de = serde_json::Deserializer::from_reader(&mut reader);
                    match decode_in_place::<T, _>(shape, &mut de, in_place_seed.unwrap()) {
                        Ok(v) => de.end().map(|_| v).map_err(|e| e.to_string()),
                        Err(e) => Err(e.to_string()),
                    }
                }
                _ => read_json::<T, _>(shape, &mut reader),
            });
            out.terminal_at = reader.terminal_at;
            out.hard_error = reader.hard_delivered;
            out.nested_errors = std::mem::take(&mut reader.nested_errors);
            out.reentered = reader.reentered;
            if let (Some(at), false) = (reader.terminal_at, reader.hard_delivered) {
                out.eof_prefix = Some(bytes[..at].to_vec());
            }
            out.read_faults = reader.faults_delivered;
            out.made = std::mem::take(&mut reader.src.made);
            out.log = reader.log.0;
            out.result = res;
        }
        Delivery::Str | Delivery::EscapedStr | Delivery::InPlaceStr => {
            let text: Option<&str> = match &escaped {
                Some(e) => Some(e.as_str()),
                None => std::str::from_utf8(data).ok(),
            };
            out.result = match text {
                // `from_str` needs a `&str`; on bytes that are not UTF-8 this delivery does not
                // exist (and `from_slice` may still succeed when the bad bytes sit in a part of
                // the document it skips without validating, such as an unknown field)
                None => return (out, false),
                Some(t) => guarded(|| {
                    let mut de = serde_json::Deserializer::from_str(t);
                    let r = if in_place {
                        decode_in_place::<T, _>(shape, &mut de, in_place_seed.unwrap())
                    } else {
                        decode::<T, _>(shape, &mut de)
                    };
                    match r {
                        Ok(v) => de.end().map(|_| v).map_err(|e| e2s(&e)),
                        Err(e) => Err(e2s(&e)),
                    }
                }),
            };
        }
        Delivery::Value => {
            out.result = match serde_json::from_slice::<serde_json::Value>(data) {
                Err(_) => return (out, false),
                Ok(v) => guarded(|| decode::<T, _>(shape, v).map_err(|e| e2s(&e))),
            };
        }
        Delivery::DeStr | Delivery::DeString | Delivery::DeBorrowed => return (out, false),
    }
    (out, true)
}

// ------------------------------------------------------------------------------------------------
// G0: the in-memory, fault-free baseline on one item

pub struct G0 {
    pub printed: Option<String>,
    pub ok: bool,
}

fn g0_item<T: Item>(b: &Built<T>, viols: &mut Vec<Violation>, stats: &mut Stats) -> G0
where
    <T as FromStr>::Err: fmt::Display,
{
    stats.inc(C::g0_items_checked);
    let x = &b.item;
    let s = match guarded(|| x.to_string()) {
        Ok(s) => s,
        Err(p) => {
            viols.push(viol("G0-print-panic", format!("to_string() panicked: {}", p), None));
            return G0 { printed: None, ok: false };
        }
    };
    let before = viols.len();
    let mut reparsed: Option<T> = None;
    match guarded(|| s.parse::<T>()) {
        Err(p) => viols.push(viol(
            "G0-reparse-panic",
            format!("parsing the printed form {:?} panicked: {}", s, p),
            Some(&s),
        )),
        Ok(Err(e)) => viols.push(viol(
            "G0-reparse-fails",
            format!("the printed form {:?} of a {} does not parse back: {}", s, T::KIND, e),
            Some(&s),
        )),
        Ok(Ok(y)) => {
            stats.inc(C::g0_reparse_ok);
            match guarded(|| T::same_after_round_trip(x, &y, &s, b.strict)) {
                Err(p) => viols.push(viol("G0-compare-panic", p, Some(&s))),
                Ok(Err(d)) => viols.push(viol(
                    "G0-reparse-differs",
                    format!("printed form {:?} parses back to a different {}: {}", s, T::KIND, d),
                    Some(&s),
                )),
                Ok(Ok(())) => {}
            }
            match guarded(|| y.to_string()) {
                Err(p) => viols.push(viol("G0-print-panic", p, Some(&s))),
                Ok(s2) => {
                    if T::PRINT_IS_FIXED_POINT {
                        if s2 != s {
                            viols.push(viol(
                                "G0-not-a-fixed-point",
                                format!("print(parse({:?})) = {:?}", s, s2),
                                Some(&s),
                            ));
                        }
                    } else {
                        // stable after one round
                        match guarded(|| s2.parse::<T>().map(|z| z.to_string())) {
                            Ok(Ok(s3)) if s3 == s2 => {}
                            other => viols.push(viol(
                                "G0-not-stable-after-one-round",
                                format!(
                                    "{:?} -> {:?} -> {:?}",
                                    s,
                                    s2,
                                    other.map(|r| r.map_err(|e| e.to_string()))
                                ),
                                Some(&s),
                            )),
                        }
                    }
                }
            }
            reparsed = Some(y);
        }
    }
    // serde, in memory.  Version (C12): the JSON is exactly the printed string, and reads back as
    // the re-parsed value.  Range (C13): "round-trips the same way" - the JSON need not be the
    // printed text, but must read back as the same range.
    let want = serde_json::to_string(&s).expect("string to JSON");
    match guarded(|| serde_json::to_string(x)) {
        Err(p) => viols.push(viol("G0-serde-panic", p, Some(&s))),
        Ok(Err(e)) => viols.push(viol("G0-serde-ser-fails", e.to_string(), Some(&s))),
        Ok(Ok(j)) => {
            if T::JSON_IS_PRINTED_STRING && j != want {
                viols.push(viol(
                    "G0-json-not-printed-string",
                    format!("JSON {} but printed form {}", j, want),
                    Some(&s),
                ));
            }
            match guarded(|| serde_json::from_str::<T>(&j)) {
                Err(p) => viols.push(viol("G0-serde-panic", p, Some(&s))),
                Ok(Err(e)) => viols.push(viol(
                    "G0-serde-de-fails",
                    format!("from_str({}) failed: {}", j, e),
                    Some(&s),
                )),
                Ok(Ok(z)) => {
                    if T::JSON_IS_PRINTED_STRING {
                        if let Some(y) = &reparsed {
                            match guarded(|| (T::identical(&z, y), T::diff(&z, y))) {
                                Ok((true, _)) => {}
                                Ok((false, d)) => viols.push(viol(
                                    "G0-serde-differs-from-parse",
                                    format!("from_str({}) = {}", j, d),
                                    Some(&s),
                                )),
                                Err(p) => viols.push(viol("G0-compare-panic", p, Some(&s))),
                            }
                        }
                    } else {
                        match guarded(|| T::same_after_round_trip(x, &z, &s, b.strict)) {
                            Ok(Ok(())) => {}
                            Ok(Err(d)) => viols.push(viol(
                                "G0-serde-round-trip-differs",
                                format!("from_str({}) is a different {}: {}", j, T::KIND, d),
                                Some(&s),
                            )),
                            Err(p) => viols.push(viol("G0-compare-panic", p, Some(&s))),
                        }
                    }
                }
            }
        }
    }
    // a second real serializer: serde_json::value::Serializer (its collect_str goes through
    // to_string) and the Value deserializer (owned strings)
    match guarded(|| serde_json::to_value(x)) {
        Err(p) => viols.push(viol("G0-serde-panic", format!("to_value panicked: {}", p), Some(&s))),
        Ok(Err(e)) => viols.push(viol("G0-serde-ser-fails", format!("to_value: {}", e), Some(&s))),
        Ok(Ok(v)) => {
            if T::JSON_IS_PRINTED_STRING {
                if v != serde_json::Value::String(s.clone()) {
                    viols.push(viol(
                        "G0-json-not-printed-string",
                        format!("to_value gives {} but printed form {:?}", v, s),
                        Some(&s),
                    ));
                }
            } else {
                match guarded(|| serde_json::from_value::<T>(v.clone()).map(|z| T::same_after_round_trip(x, &z, &s, b.strict))) {
                    Ok(Ok(Ok(()))) => {}
                    Ok(Ok(Err(d))) => viols.push(viol(
                        "G0-serde-round-trip-differs",
                        format!("from_value({}) is a different {}: {}", v, T::KIND, d),
                        Some(&s),
                    )),
                    Ok(Err(e)) => viols.push(viol("G0-serde-de-fails", format!("from_value({}) failed: {}", v, e), Some(&s))),
                    Err(p) => viols.push(viol("G0-serde-panic", p, Some(&s))),
                }
            }
        }
    }
    G0 {
        printed: Some(s),
        ok: viols.len() == before,
    }
}

// ------------------------------------------------------------------------------------------------

fn trim_default<D: PartialEq>(v: &mut Vec<D>, is_default: impl Fn(&D) -> bool) {
    while let Some(last) = v.last() {
        if is_default(last) {
            v.pop();
        } else {
            break;
        }
    }
}

fn build_rec_versions(spec: &ValueSpec, stats: &mut Stats) -> Option<Rec<Version>> {
    let mut one = |s: &VSrc, stats: &mut Stats| -> Option<Built<Version>> {
        let v = build_version(s)?;
        match s {
            VSrc::Text(_) => stats.inc(C::values_from_text),
            VSrc::Fields(_) => stats.inc(C::values_from_fields),
            VSrc::Tuple { .. } => stats.inc(C::values_from_tuple),
        }
        Some(Built { item: v, strict: true, source: match s { VSrc::Text(t) => Some(t.clone()), _ => None } })
    };
    match spec {
        ValueSpec::Versions { shape, items } => {
            stats.inc(C::values_version);
            if shape.single() && items.len() != 1 {
                return None;
            }
            let mut out = Vec::new();
            for s in items {
                out.push(one(s, stats)?);
            }
            Some(Rec { shape: *shape, items: out })
        }
        _ => None,
    }
}

fn build_rec_ranges(spec: &ValueSpec, stats: &mut Stats) -> Option<Rec<Range>> {
    let mut one = |s: &RSrc, stats: &mut Stats| -> Option<Built<Range>> {
        match build_range(s) {
            Err(()) => {
                stats.inc(C::setop_panicked);
                None
            }
            Ok(None) => None,
            Ok(Some(r)) => {
                if s.is_parsed() {
                    stats.inc(C::values_from_text);
                } else {
                    stats.inc(C::values_from_setop);
                }
                Some(Built { item: r, strict: s.is_parsed(), source: match s { RSrc::Text(t) => Some(t.clone()), _ => None } })
            }
        }
    };
    match spec {
        ValueSpec::Ranges { shape, items } => {
            stats.inc(C::values_range);
            if shape.single() && items.len() != 1 {
                return None;
            }
            let mut out = Vec::new();
            for s in items {
                out.push(one(s, stats)?);
            }
            Some(Rec { shape: *shape, items: out })
        }
        _ => None,
    }
}

pub fn execute(plan: &Plan, search: Option<Search>, stats: &mut Stats) -> Outcome {
    stats.inc(C::runs);
    crate::stubs::PROGRESS.fetch_add(1, std::sync::atomic::Ordering::Relaxed);
    match &plan.value {
        ValueSpec::Versions { .. } => {
            let rec = build_rec_versions(&plan.value, stats);
            let fresh = if plan.knobs.fresh_instance { build_rec_versions(&plan.value, &mut Stats::default()) } else { None };
            execute_rec::<Version>(plan, rec, fresh, search, stats)
        }
        ValueSpec::Ranges { .. } => {
            let rec = build_rec_ranges(&plan.value, stats);
            let fresh = if plan.knobs.fresh_instance { build_rec_ranges(&plan.value, &mut Stats::default()) } else { None };
            execute_rec::<Range>(plan, rec, fresh, search, stats)
        }
    }
}

fn execute_rec<T: Item>(
    plan: &Plan,
    rec: Option<Rec<T>>,
    fresh: Option<Rec<T>>,
    search: Option<Search>,
    stats: &mut Stats,
) -> Outcome
where
    <T as FromStr>::Err: fmt::Display,
{
    let mut effective = plan.clone();
    let mut viols: Vec<Violation> = Vec::new();
    let mut log = Fnv::default();
    let rec = match rec {
        Some(r) => r,
        None => {
            stats.inc(C::values_unbuildable);
            return Outcome {
                effective,
                violations: vec![],
                advisory: vec![],
                log_digest: log.0,
                nontrivial: false,
                dedup_key: 0,
                built: false,
                summary: serde_json::Value::Null,
                counts: Counts::default(),
            };
        }
    };
    let (mut rng_fmt, mut rng_w, mut rng_flip, mut rng_r, cfg) = match &search {
        Some(s) => (
            Some(s.rng.fork(1)),
            Some(s.rng.fork(2)),
            Some(s.rng.fork(3)),
            Some(s.rng.fork(4)),
            s.cfg.clone(),
        ),
        None => (None, None, None, None, FaultCfg::none()),
    };
    let shape = rec.shape;
    stats.inc(match shape {
        Shape::One => C::shape_bare,
        Shape::Many => C::shape_array,
        Shape::Entry => C::shape_struct_field,
        Shape::Tagged => C::shape_tagged_enum,
        Shape::Keyed => C::shape_map_keys,
        Shape::Opt => C::shape_option,
        Shape::Untagged => C::shape_untagged_enum,
        Shape::Flatten => C::shape_flattened_struct,
    });
    let many = shape == Shape::Many;

    // ---- G0 ------------------------------------------------------------------------------------
    let mut printed: Vec<String> = Vec::new();
    let mut g0_ok_items: Vec<bool> = Vec::new();
    for b in rec.items() {
        let first_new = viols.len();
        let g = g0_item(b, &mut viols, stats);
        for v in viols[first_new..].iter_mut() {
            v.source = b.source.clone();
        }
        g0_ok_items.push(g.ok);
        match g.printed {
            Some(s) => printed.push(s),
            None => {
                // cannot even print in memory: nothing further can be simulated for this value
                return Outcome {
                    effective,
                    violations: viols,
                    advisory: vec![],
                    log_digest: log.0,
                    nontrivial: false,
                    dedup_key: 0,
                    built: true,
                    summary: serde_json::Value::Null,
                    counts: Counts::default(),
                };
            }
        }
    }
    for s in &printed {
        log.bytes(s.as_bytes());
        if s.len() == nodejs_semver::MAX_LENGTH {
            stats.inc(C::probe_record_at_max_length);
        }
        if s.contains("900719925474099") {
            stats.inc(C::probe_max_safe_integer_component);
        }
    }
    let first_printed = printed.first().cloned();
    let fp = first_printed.as_deref();

    // ---- the value and operations used when a stub decides to re-enter the crate ------------------
    let nested: Option<(T, String, String)> = {
        let text = match (plan.knobs.nested_sibling, &first_printed) {
            (true, Some(p)) => T::nested_sibling_text(p),
            _ => T::NESTED_TEXT.to_string(),
        };
        guarded(|| text.parse::<T>().ok())
            .ok()
            .flatten()
            .and_then(|n| guarded(|| n.to_string()).ok().map(|s| (n, s)))
            .and_then(|(n, s)| {
                let j = if T::JSON_IS_PRINTED_STRING {
                    serde_json::to_string(&s).ok()
                } else {
                    guarded(|| serde_json::to_string(&n).ok()).ok().flatten()
                };
                j.map(|j| (n, s, j))
            })
    };
    let nested_print = || -> Option<String> {
        let (n, ns, _) = nested.as_ref()?;
        match guarded(|| n.to_string()) {
            Ok(s) if s == *ns => None,
            Ok(s) => Some(format!("re-entrant to_string() of {:?} gave {:?}", ns, s)),
            Err(p) => Some(format!("re-entrant to_string() of {:?} panicked: {}", ns, p)),
        }
    };
    let nested_ser = || -> Option<String> {
        let (n, ns, nj) = nested.as_ref()?;
        match guarded(|| serde_json::to_string(n)) {
            Ok(Ok(j)) if j == *nj => None,
            Ok(Ok(j)) => Some(format!("re-entrant serde_json::to_string of {:?} gave {}", ns, j)),
            Ok(Err(e)) => Some(format!("re-entrant serde_json::to_string of {:?} failed: {}", ns, e)),
            Err(p) => Some(format!("re-entrant serde_json::to_string of {:?} panicked: {}", ns, p)),
        }
    };
    let nested_de = || -> Option<String> {
        let (n, ns, nj) = nested.as_ref()?;
        match guarded(|| serde_json::from_str::<T>(nj).map(|z| T::same_after_round_trip(n, &z, ns, true).is_ok())) {
            Ok(Ok(true)) => None,
            Ok(Ok(false)) => Some(format!("re-entrant from_str of {} gave a different value than parsing {:?}", nj, ns)),
            Ok(Err(e)) => Some(format!("re-entrant from_str of {} failed: {}", nj, e)),
            Err(p) => Some(format!("re-entrant from_str of {} panicked: {}", nj, p)),
        }
    };

    // A second instance of the same value that has never been printed or serialised: state a
    // value may carry (a cached rendering, say) is then first touched by the faulty phases below.
    // The reference texts above come from the first instance.
    let wrec: &Rec<T> = match &fresh {
        Some(f) if f.items.len() == rec.items.len() => {
            stats.inc(C::fresh_instance_runs);
            f
        }
        _ => &rec,
    };

    let viols_before_faulty_phases = viols.len();
    let mut fresh_other_representation = false;

    // ---- P: printing into a failing formatter sink -----------------------------------------------
    let mut fmt_faults = 0usize;
    let mut sink_panicked_in_p = false;
    let mut reentered = 0usize;
    let mut counts = Counts::default();
    {
        let mut sink = SimFmtSink::new(plan.fmt_sched.clone(), rng_fmt.take(), cfg.clone(), stats);
        sink.nested = Some(&nested_print);
        let shape = plan.knobs.fmt_shape;
        let mut expected = String::new();
        for s in &printed {
            match shape {
                FmtShape::Plain => expected.push_str(s),
                FmtShape::Framed => {
                    expected.push('<');
                    expected.push_str(s);
                    expected.push('>');
                }
                FmtShape::Twice => {
                    expected.push_str(s);
                    expected.push(' ');
                    expected.push_str(s);
                }
            }
        }
        let res = guarded(|| {
            for b in wrec.items() {
                let x = &b.item;
                match shape {
                    FmtShape::Plain => write!(sink, "{}", x)?,
                    FmtShape::Framed => write!(sink, "<{}>", x)?,
                    FmtShape::Twice => write!(sink, "{} {}", x, x)?,
                }
            }
            Ok::<(), fmt::Error>(())
        });
        fmt_faults = sink.failed;
        sink_panicked_in_p = sink.panicked;
        reentered += sink.reentered;
        for e in sink.nested_errors.drain(..) {
            viols.push(viol("N1-reentrant-print-wrong", e, nested.as_ref().map(|n| n.1.as_str())));
        }
        counts.fmt_calls = sink.calls;
        match res {
            // the sink itself panicked on purpose and the caller caught it: nothing to check about
            // this call; what matters is that the thread can go on printing afterwards
            Err(p) if sink.panicked && p.contains(SINK_PANIC) => {}
            Err(p) => viols.push(viol(
                "P-panic",
                format!("printing into a formatter sink panicked: {}", p),
                fp,
            )),
            Ok(r) => {
                if r.is_ok() && sink.failed > 0 {
                    viols.push(viol(
                        "P1-sink-error-swallowed",
                        format!(
                            "the sink failed {} write_str call(s) but the printing call returned Ok; sink holds {:?}, full text {:?}",
                            sink.failed, sink.out, expected
                        ),
                        fp,
                    ));
                }
                if r.is_err() && sink.failed == 0 {
                    viols.push(viol(
                        "P1-error-invented",
                        format!("the sink never failed but printing returned Err; sink holds {:?}", sink.out),
                        fp,
                    ));
                }
                if r.is_ok() && sink.failed == 0 && sink.out != expected {
                    viols.push(viol(
                        "P2-text-differs",
                        format!("sink received {:?}, to_string() gives {:?}", sink.out, expected),
                        fp,
                    ));
                }
                if sink.failed > 0 && sink.calls_after_failure == 0 && !expected.starts_with(&sink.out) {
                    viols.push(viol(
                        "P2-not-a-prefix",
                        format!("sink holds {:?}, not a prefix of {:?}", sink.out, expected),
                        fp,
                    ));
                }
                if sink.calls_after_failure > 0 {
                    viols.push(viol(
                        "P3-write-after-sink-error",
                        format!(
                            "{} write_str call(s) arrived after the sink had returned an error",
                            sink.calls_after_failure
                        ),
                        fp,
                    ));
                }
                if r.is_ok() {
                    sink.stats.inc(C::p_runs_ok);
                } else {
                    sink.stats.inc(C::p_runs_err);
                }
            }
        }
        log.u64(sink.log.0);
        effective.fmt_sched = std::mem::take(&mut sink.src.made);
        trim_default(&mut effective.fmt_sched, |d| *d == FDec::Accept);
    }

    // ---- W: persist through serde_json onto the simulated medium -----------------------------------
    let j: Vec<u8> = {
        // The bytes the record must consist of.  Version: computed from the in-memory printed
        // forms by serde_json alone (strings in, JSON out) - C12 says the JSON is exactly the
        // printed string.  Range: C13 does not say that, so the reference is what the same
        // Serialize produces into an infallible in-memory buffer; what reaches a faulty sink
        // must be a prefix of it, and equal to it when acknowledged.
        let refs: Vec<&String> = printed.iter().collect();
        let w = Wire(shape, &refs);
        let from_printed = if plan.knobs.pretty {
            serde_json::to_vec_pretty(&w).unwrap()
        } else {
            serde_json::to_vec(&w).unwrap()
        };
        if T::JSON_IS_PRINTED_STRING {
            from_printed
        } else {
            let item_refs: Vec<&T> = rec.items().iter().map(|b| &b.item).collect();
            let w = Wire(shape, &item_refs);
            let pretty = plan.knobs.pretty;
            match guarded(|| if pretty { serde_json::to_vec_pretty(&w) } else { serde_json::to_vec(&w) }) {
                Ok(Ok(bytes)) => bytes,
                _ => {
                    // This Serialize cannot put the value into this document shape even in memory
                    // (a range serialised as a JSON list cannot be an object key, say).  C13 does
                    // not promise any particular JSON representation, and the bare value's own
                    // serde round trip was checked by the baseline above, so there is nothing to
                    // persist and recover for this record.
                    stats.inc(C::records_not_serialisable_in_shape);
                    let nontrivial = fmt_faults > 0 || reentered > 0;
                    if nontrivial {
                        stats.inc(C::runs_nontrivial);
                    }
                    return Outcome {
                        effective,
                        violations: viols,
                        advisory: vec![],
                        log_digest: log.0,
                        nontrivial,
                        dedup_key: 0,
                        built: true,
                        summary: serde_json::json!({"value": spec_text(&plan.value), "printed": printed, "note": "not serialisable in this document shape"}),
                        counts,
                    };
                }
            }
        }
    };
    let mut disk = Disk::default();
    let mut wctl = WriteCtl::new(
        plan.write_sched.clone(),
        plan.flush_sched.clone(),
        rng_w.take(),
        cfg.clone(),
        plan.knobs.sync_each_write,
    );
    if plan.knobs.bufwriter.is_some() {
        stats.inc(C::bufwriter_runs);
    }
    if plan.knobs.sync_each_write {
        stats.inc(C::sync_each_write_runs);
    }
    if plan.knobs.pretty {
        stats.inc(C::pretty_runs);
    }
    struct WOut {
        ser: Result<Result<(), String>, String>,
        flush: Option<Result<(), String>>,
        accepted: usize,
        diverged_at: Option<usize>,
        terminal_errors_in_ser: usize,
        terminal_errors_total: usize,
        writes_after_terminal: usize,
        shim_calls: usize,
    }
    let wout: WOut = {
        let mut sw = SimWriter { disk: &mut disk, ctl: &mut wctl, stats: &mut *stats, nested: Some(&nested_ser) };
        let pretty = plan.knobs.pretty;
        let item_refs: Vec<&T> = wrec.items().iter().map(|b| &b.item).collect();
        let recser = Wire(shape, &item_refs);
        fn drive<W: io::Write, S: Serialize>(w: W, j: &[u8], pretty: bool, value: &S) -> (WOut, W) {
            let mut shim = Shim::new(w, j);
            let ser = guarded(|| {
                if pretty {
                    serde_json::to_writer_pretty(&mut shim, value).map_err(|e| e.to_string())
                } else {
                    serde_json::to_writer(&mut shim, value).map_err(|e| e.to_string())
                }
            });
            let t_in_ser = shim.terminal_errors;
            let after = shim.writes_after_terminal;
            let flush = match &ser {
                // (the flush may meet an injected sink panic: the caller catches it, not acknowledged)
                Ok(Ok(())) => Some(match guarded(|| shim.flush().map_err(|e| e.to_string())) {
                    Ok(r) => r,
                    Err(p) => Err(p),
                }),
                _ => None,
            };
            (
                WOut {
                    ser,
                    flush,
                    accepted: shim.accepted,
                    diverged_at: shim.diverged_at,
                    terminal_errors_in_ser: t_in_ser,
                    terminal_errors_total: shim.terminal_errors + shim.flush_errors,
                    writes_after_terminal: after,
                    shim_calls: shim.calls,
                },
                shim.inner,
            )
        }
        match plan.knobs.bufwriter {
            None => drive(&mut sw, &j, pretty, &recser).0,
            Some(cap) => {
                let bw = io::BufWriter::with_capacity(cap.max(1), &mut sw);
                let (o, bw) = drive(bw, &j, pretty, &recser);
                // a real process drops its BufWriter here: one more flush attempt, errors ignored
                let had_sticky = bw.get_ref().ctl.sticky;
                // (the flush attempt may itself meet an injected sink panic)
                let _ = guarded(move || drop(bw));
                if had_sticky {
                    sw.stats.inc(C::probe_sticky_then_bufwriter_drop);
                }
                o
            }
        }
    };
    let crashed = disk.crashed;
    let acked = matches!(wout.ser, Ok(Ok(()))) && matches!(wout.flush, Some(Ok(()))) && !crashed;
    match &wout.ser {
        Err(p) if wctl.sink_panicked && p.contains(SINK_PANIC) => {}
        Err(p) => viols.push(viol(
            "W-panic",
            format!("serialising panicked: {}", p),
            fp,
        )),
        Ok(r) => {
            if r.is_ok() && wout.terminal_errors_in_ser > 0 {
                viols.push(viol(
                    "W2-acked-after-sink-error",
                    format!(
                        "the writer returned {} terminal error(s) to the serializer, yet to_writer returned Ok; medium holds {:?}, record is {:?}",
                        wout.terminal_errors_in_ser,
                        String::from_utf8_lossy(&disk.bytes),
                        String::from_utf8_lossy(&j)
                    ),
                    fp,
                ));
            }
            if r.is_err() && wout.terminal_errors_in_ser == 0 {
                viols.push(viol(
                    "W4-error-invented",
                    format!("no write failed, yet to_writer returned Err({})", r.as_ref().unwrap_err()),
                    fp,
                ));
            }
        }
    }
    if let Some(at) = wout.diverged_at {
        viols.push(viol(
            "W3-bytes-diverge",
            format!(
                "bytes accepted by the serializer's sink differ from the printed string at offset {}: record must be {:?}",
                at,
                String::from_utf8_lossy(&j)
            ),
            fp,
        ));
    }
    if wout.writes_after_terminal > 0 {
        viols.push(viol(
            "W3-write-after-sink-error",
            format!(
                "{} write call(s) reached the sink after it had returned a terminal error",
                wout.writes_after_terminal
            ),
            fp,
        ));
    }
    if acked && !disk.corrupted {
        if disk.bytes != j || wout.accepted != j.len() {
            viols.push(viol(
                "W1-acknowledged-bytes-inexact",
                format!(
                    "acknowledged record is {:?}, printed string gives {:?}",
                    String::from_utf8_lossy(&disk.bytes),
                    String::from_utf8_lossy(&j)
                ),
                fp,
            ));
        }
        if disk.durable != disk.bytes.len() {
            viols.push(viol(
                "H-harness-durable-watermark",
                "acknowledged but not durable: harness bug".into(),
                fp,
            ));
        }
    }
    // reach / outcome stats
    if crashed {
        stats.inc(C::wr_crashed);
        stats.crash_pairs.insert((j.len() as u32, disk.bytes.len() as u32));
    } else if acked {
        stats.inc(C::wr_acknowledged);
    } else {
        stats.inc(C::wr_failed_honestly);
    }
    if disk.corrupted {
        stats.inc(C::wr_corrupted_by_medium);
    }
    if wctl.terminal_delivered > 0 {
        if let Some(&last) = wctl.fault_call_indices.last() {
            if last + 1 == wctl.calls {
                stats.inc(C::probe_fault_on_last_write);
            }
        }
        if plan.knobs.bufwriter.is_some() && wout.terminal_errors_in_ser == 0 && wout.terminal_errors_total > 0 {
            stats.inc(C::probe_bufwriter_flush_failure_after_clean_display);
        }
        if many && wctl.faults_delivered > 0 && wout.accepted > 1 && wout.accepted < j.len() {
            let prev = j[wout.accepted - 1];
            if prev == b',' || prev == b'[' || (prev == b'"' && j.get(wout.accepted) == Some(&b',')) {
                stats.inc(C::probe_fault_between_list_items);
            }
        }
    }
    log.u64(wctl.log.0);
    log.u64(disk.bytes.len() as u64);
    effective.write_sched = std::mem::take(&mut wctl.src.made);
    trim_default(&mut effective.write_sched, |d| *d == WDec::Accept);
    effective.flush_sched = std::mem::take(&mut wctl.flush_src.made);
    trim_default(&mut effective.flush_sched, |d| *d == FlushDec::Ok);
    let write_faults = wctl.faults_delivered;
    reentered += wctl.reentered;
    for e in wctl.nested_errors.drain(..) {
        viols.push(viol("N2-reentrant-serialize-wrong", e, nested.as_ref().map(|n| n.1.as_str())));
    }
    counts.write_lens = std::mem::take(&mut wctl.lens);
    counts.flush_calls = wctl.flush_calls;
    counts.record_len = j.len();

    // After the faulty sinks: the instance that went through them still prints its own text.
    // Two builds of the same spec need not print the same text (a set operation may order its
    // alternatives by a hash set's iteration order and still satisfy C13), so a difference from
    // the first instance's text is a violation only if the text does not even denote the
    // instance that printed it.  If it does, the byte-for-byte comparisons of this run against
    // the first instance's text were comparing the wrong thing and are withdrawn.
    if fresh.is_some() || sink_panicked_in_p || wctl.sink_panicked {
        let mut other_representation = false;
        let mut s1 = false;
        for (b, want) in wrec.items().iter().zip(&printed) {
            match guarded(|| b.item.to_string()) {
                Ok(s) if s == *want => {}
                Ok(s) => {
                    let consistent = fresh.is_some()
                        && matches!(
                            guarded(|| s.parse::<T>().ok().map(|y| T::same_after_round_trip(&b.item, &y, &s, b.strict).is_ok())),
                            Ok(Some(true))
                        );
                    if consistent {
                        other_representation = true;
                    } else {
                        s1 = true;
                        viols.push(viol(
                            "S1-print-after-faulty-sink-differs",
                            format!("after its first print went to a failing sink the value prints {:?}; a fresh instance prints {:?}", s, want),
                            Some(want),
                        ));
                    }
                }
                Err(p) => {
                    s1 = true;
                    viols.push(viol(
                        "S1-print-after-faulty-sink-differs",
                        format!("after its first print went to a failing sink printing the value panics: {}", p),
                        Some(want),
                    ));
                }
            }
        }
        if other_representation && !s1 {
            stats.inc(C::fresh_instance_other_representation);
            let mut kept: Vec<Violation> = Vec::new();
            for (i, v) in std::mem::take(&mut viols).into_iter().enumerate() {
                let text_comparison = matches!(
                    v.class.as_str(),
                    "P2-text-differs" | "P2-not-a-prefix" | "W1-acknowledged-bytes-inexact" | "W3-bytes-diverge"
                );
                if i >= viols_before_faulty_phases && text_comparison {
                    continue;
                }
                kept.push(v);
            }
            viols = kept;
            fresh_other_representation = true;
            let _ = fresh_other_representation;
        }
    }

    // ---- storage: what survives, bit flips at rest -----------------------------------------------
    let mut data = disk.bytes.clone();
    if search.is_some() && cfg.flips > 0 && !data.is_empty() {
        let rng = rng_flip.as_mut().unwrap();
        effective.flips = (0..cfg.flips)
            .map(|_| (rng.usize_below(data.len()), rng.below(8) as u8))
            .collect();
    }
    let mut flipped = false;
    for &(i, bit) in &effective.flips {
        if i < data.len() {
            let before = data[i];
            data[i] ^= 1 << (bit & 7);
            flipped = true;
            stats.inc(C::flips_applied);
            let sep = |b: u8| matches!(b, b'.' | b'-' | b'+' | b' ' | b'|' | b'<' | b'>' | b'=');
            let idc = |b: u8| b.is_ascii_alphanumeric() || b == b'-';
            if sep(before) && idc(data[i]) && before != b'-' {
                stats.inc(C::probe_flip_separator_to_identifier);
            }
        }
    }
    let intact = data == j;
    if data.is_empty() {
        stats.inc(C::survivors_empty);
    } else if intact {
        stats.inc(C::survivors_complete);
        if !acked {
            stats.inc(C::survivors_complete_unacked);
        }
    } else if !flipped && !disk.corrupted && j.starts_with(&data) {
        stats.inc(C::survivors_torn);
    }
    log.bytes(&data);
    counts.data_len = data.len();

    // ---- R: recovery -------------------------------------------------------------------------------
    // reference reading of the surviving bytes: in memory, no faults
    let (reference, reference_applies) = run_delivery::<T>(
        shape,
        &data,
        &ReadPlan { delivery: Delivery::Str, sched: vec![] },
        None,
        None,
        None,
        stats,
    );
    // from_str needs UTF-8; from_slice is the byte-level reference and must agree with it
    let reference_result: Result<Decoded<T>, String> = guarded(|| {
        let mut de = serde_json::Deserializer::from_slice(&data);
        match decode::<T, _>(shape, &mut de) {
            Ok(v) => de.end().map(|_| v).map_err(|e| e.to_string()),
            Err(e) => Err(e.to_string()),
        }
    });
    let e_ref: Option<Decoded<T>> = match reference_result {
        Err(p) => {
            viols.push(viol(
                "R-panic",
                format!(
                    "deserialising {:?} with from_slice panicked: {}",
                    String::from_utf8_lossy(&data),
                    p
                ),
                fp,
            ));
            None
        }
        Ok(d) => Some(d),
    };
    let compare = |what: &str, got: &Decoded<T>, want: &Decoded<T>| -> Option<String> {
        // comparing prints the values; a value that came out of Deserialize and cannot be printed
        // is reported, not allowed to take the harness down
        let r = guarded(|| match (got, want) {
            (Ok(a), Ok(b)) => {
                if a.len() != b.len() {
                    return Some(format!("{} returned {} item(s), from_slice {}", what, a.len(), b.len()));
                }
                for (x, y) in a.iter().zip(b.iter()) {
                    if !T::identical(x, y) {
                        return Some(format!("{} and from_slice disagree: {}", what, T::diff(x, y)));
                    }
                }
                None
            }
            (Err(_), Err(_)) => None,
            (Ok(_), Err(e)) => Some(format!("{} returned Ok but from_slice fails with {}", what, e)),
            (Err(e), Ok(_)) => Some(format!("{} fails with {} but from_slice returns Ok", what, e)),
        });
        match r {
            Ok(o) => o,
            Err(p) => Some(format!("comparing the value read by {} panicked: {}", what, p)),
        }
    };
    if let Some(e_ref) = &e_ref {
        // sanity of the reference itself: from_str and from_slice agree (on UTF-8 input)
        if reference_applies {
        match &reference.result {
            Err(p) => viols.push(viol("R-panic", format!("from_str panicked: {}", p), fp)),
            Ok(got) => {
                if let Some(d) = compare("from_str", got, e_ref) {
                    viols.push(viol(
                        "R4-delivery-modes-disagree",
                        format!("stored bytes {:?}: {}", String::from_utf8_lossy(&data), d),
                        fp,
                    ));
                }
            }
        }
        }
        if flipped {
            match e_ref {
                Err(_) => stats.inc(C::flip_runs_rejected),
                Ok(vals) => {
                    let same = guarded(|| {
                        vals.len() == rec.items().len()
                            && vals.iter().zip(rec.items()).all(|(a, b)| T::identical(a, &b.item))
                    })
                    .unwrap_or(false);
                    stats.inc(if same { C::flip_runs_same_value } else { C::flip_runs_other_value });
                }
            }
        }
        // R1 / R5: an intact record reads back as the value that was written
        if intact {
            stats.inc(C::r1_durability_checked);
            match e_ref {
                Err(e) => {
                    if g0_ok_items.iter().all(|ok| *ok) {
                        viols.push(viol(
                            "R1-intact-record-unreadable",
                            format!("record {:?} is intact but reading it fails: {}", String::from_utf8_lossy(&j), e),
                            fp,
                        ));
                    }
                }
                Ok(vals) => {
                    if vals.len() != rec.items().len() {
                        viols.push(viol(
                            "R1-intact-record-differs",
                            format!("wrote {} item(s), read {}", rec.items().len(), vals.len()),
                            fp,
                        ));
                    } else {
                        for (((y, b), s), ok) in vals.iter().zip(rec.items()).zip(&printed).zip(&g0_ok_items) {
                            // an item whose printed form does not even re-parse in memory was
                            // reported by the baseline; the same failure is not reported twice
                            if !*ok {
                                continue;
                            }
                            let r = guarded(|| T::same_after_round_trip(&b.item, y, s, b.strict));
                            let bad = match r {
                                Err(p) => Some(p),
                                Ok(Err(d)) => Some(d),
                                Ok(Ok(())) => None,
                            };
                            if let Some(d) = bad {
                                viols.push(viol(
                                    "R1-intact-record-differs",
                                    format!("record {:?} reads back as a different value: {}", String::from_utf8_lossy(&j), d),
                                    Some(s),
                                ));
                                break;
                            }
                        }
                    }
                }
            }
        } else if !flipped && !disk.corrupted && j.starts_with(&data) {
            // R3: a torn record (strict prefix) is rejected - guaranteed by JSON framing
            if e_ref.is_ok() {
                // a strict prefix of a JSON document is never a JSON document: serde_json
                // reports an error, and only a Deserialize that swallows the deserializer's
                // error can turn that into a value
                viols.push(viol(
                    "R3-torn-record-accepted",
                    format!(
                        "the torn record {:?} (a strict prefix of {:?}) was read back as a value instead of an error",
                        String::from_utf8_lossy(&data),
                        String::from_utf8_lossy(&j)
                    ),
                    fp,
                ));
            } else {
                stats.inc(C::r3_torn_rejected);
            }
        }
    }

    // planned deliveries
    let mut read_plans: Vec<ReadPlan> = plan.reads.clone();
    if let Some(_) = &search {
        let rng = rng_r.as_mut().unwrap();
        let n = 1 + rng.usize_below(3);
        for k in 0..n {
            let d = if k == 0 {
                match rng.below(3) {
                    0 => Delivery::Reader,
                    1 => Delivery::BufReader(1 + rng.usize_below(64)),
                    _ => Delivery::EscapedReader,
                }
            } else {
                let d = *rng.pick(&ALL_DELIVERIES);
                match d {
                    Delivery::BufReader(_) => Delivery::BufReader(1 + rng.usize_below(64)),
                    d => d,
                }
            };
            read_plans.push(ReadPlan { delivery: d, sched: vec![] });
        }
    }
    let mut read_faults_total = 0usize;
    effective.reads.clear();
    for (k, rp) in read_plans.iter().enumerate() {
        let applies = match rp.delivery {
            Delivery::DeStr | Delivery::DeString | Delivery::DeBorrowed => false,
            // serde_json::Value keeps one entry per key; a document with duplicate keys (two
            // equal items, or a bit flip) legitimately reads differently through it
            Delivery::Value => shape != Shape::Keyed,
            Delivery::InPlaceStr | Delivery::InPlaceReader => {
                matches!(shape, Shape::One | Shape::Many | Shape::Opt) && nested.is_some()
            }
            _ => true,
        };
        if !applies {
            stats.inc(C::deliveries_not_applicable);
            counts.read_calls.push(0);
            effective.reads.push(rp.clone());
            continue;
        }
        let s = match (&search, rng_r.as_ref()) {
            (Some(_), Some(r)) if rp.delivery.uses_reader() => Some((r.fork(100 + k as u64), &cfg)),
            _ => None,
        };
        stats.inc(C::reads_total);
        let (mut rr, applied) = run_delivery::<T>(shape, &data, rp, s, Some(&nested_de), nested.as_ref().map(|n| &n.0), stats);
        if !applied {
            stats.inc(C::deliveries_not_applicable);
            counts.read_calls.push(0);
            effective.reads.push(rp.clone());
            continue;
        }
        reentered += rr.reentered;
        for e in rr.nested_errors.drain(..) {
            viols.push(viol("N3-reentrant-deserialize-wrong", e, nested.as_ref().map(|n| n.1.as_str())));
        }
        read_faults_total += rr.read_faults;
        log.u64(rr.log);
        let name = rp.delivery.name();
        match (&rr.result, &e_ref) {
            (Err(p), _) => viols.push(viol(
                "R-panic",
                format!("{} of {:?} panicked: {}", name, String::from_utf8_lossy(&data), p),
                fp,
            )),
            (Ok(got), Some(e_ref)) => {
                if got.is_ok() {
                    stats.inc(C::reads_ok);
                } else {
                    stats.inc(C::reads_err);
                }
                match rr.terminal_at {
                    None => {
                        if let Some(d) = compare(name, got, e_ref) {
                            viols.push(viol(
                                "R4-delivery-modes-disagree",
                                format!("stored bytes {:?}: {}", String::from_utf8_lossy(&data), d),
                                fp,
                            ));
                        }
                    }
                    Some(at) => {
                        stats.inc(C::reads_under_terminal_fault);
                        if at >= rr.data_len {
                            stats.inc(C::reads_fault_after_end);
                        }
                        if rr.hard_error {
                            // whoever received the error must report it: the deserializer cannot
                            // finish without reading up to end of input
                            if got.is_ok() {
                                viols.push(viol(
                                    "R2-ok-after-read-error",
                                    format!(
                                        "{} returned Ok although the reader returned a hard error at byte {} of {}",
                                        name, at, rr.data_len
                                    ),
                                    fp,
                                ));
                            }
                        } else if let Some(prefix) = &rr.eof_prefix {
                            // premature EOF: the deserializer saw exactly this prefix, so it must
                            // answer what the in-memory reading of the prefix answers
                            let want: Result<Decoded<T>, String> = guarded(|| {
                                let mut de = serde_json::Deserializer::from_slice(prefix);
                                match decode::<T, _>(shape, &mut de) {
                                    Ok(v) => de.end().map(|_| v).map_err(|e| e.to_string()),
                                    Err(e) => Err(e.to_string()),
                                }
                            });
                            if let Ok(want) = want {
                                if let Some(d) = compare(name, got, &want) {
                                    viols.push(viol(
                                        "R2-truncated-read-disagrees",
                                        format!(
                                            "input truncated to {:?} by a premature EOF: {}",
                                            String::from_utf8_lossy(prefix),
                                            d
                                        ),
                                        fp,
                                    ));
                                }
                            }
                        }
                    }
                }
            }
            (Ok(_), None) => {}
        }
        let mut made = rr.made;
        counts.read_calls.push(made.len());
        trim_default(&mut made, |d| *d == RDec::Chunk(usize::MAX));
        effective.reads.push(ReadPlan { delivery: rp.delivery, sched: made });
    }

    // ---- B: the same record through a second format --------------------------------------------------
    // `pack.rs`: binary, self-describing, not human-readable, streaming over io::Write / io::Read.
    // C12 / C13 state no wire shape for such a format, so the reference bytes are what the same
    // Serialize puts into an infallible in-memory buffer; what is demanded is that the crate's
    // Serialize and Deserialize agree with each other under it: an intact record reads back as
    // the value that was written (also through serde's buffering containers), an acknowledged
    // write under faults consists of exactly those bytes, a sink failure is not acknowledged,
    // and a torn record is not accepted.  Values the in-memory baseline already failed on are
    // left to the baseline.
    let mut pack_faults = 0usize;
    if g0_ok_items.iter().all(|ok| *ok) {
        let (rng_pw, rng_pr) = match &search {
            Some(s) => (Some(s.rng.fork(5)), Some(s.rng.fork(6))),
            None => (None, None),
        };
        let wrefs: Vec<&T> = wrec.items().iter().map(|b| &b.item).collect();
        let recser = Wire(shape, &wrefs);
        let same_values = |vals: &[T]| -> Result<(), String> {
            if vals.len() != wrec.items().len() {
                return Err(format!("{} item(s) read, {} written", vals.len(), wrec.items().len()));
            }
            for ((b, z), s) in wrec.items().iter().zip(vals).zip(&printed) {
                T::same_after_round_trip(&b.item, z, s, b.strict)?;
            }
            Ok(())
        };
        // how the format hands strings over, and whether recovery reads into existing storage:
        // drawn per run in search mode, taken from the plan on replay
        let (transient_strings, in_place) = match &search {
            Some(s) => {
                let mut r = s.rng.fork(7);
                (r.below(3) == 0, r.below(4) == 0 && nested.is_some())
            }
            None => (plan.pack.transient_strings, plan.pack.in_place && nested.is_some()),
        };
        effective.pack.transient_strings = transient_strings;
        effective.pack.in_place = in_place;
        if transient_strings {
            stats.inc(C::pack_transient_string_runs);
        }
        if in_place {
            stats.inc(C::pack_in_place_runs);
        }
        let seed_value: Option<&T> = nested.as_ref().map(|n| &n.0);
        let read_pack = |r: &mut dyn io::Read, transient: bool, in_place: bool| -> Result<Vec<T>, String> {
            let mut d = crate::pack::Deserializer::new(r);
            d.transient_strings = transient;
            let res = match (in_place, seed_value) {
                (true, Some(seed)) => decode_in_place::<T, _>(shape, &mut d, seed),
                _ => decode::<T, _>(shape, &mut d),
            };
            match res {
                Ok(v) => d.end().map(|_| v).map_err(|e| e.to_string()),
                Err(e) => Err(e.to_string()),
            }
        };
        match guarded(|| crate::pack::to_vec(&recser).map_err(|e| e.to_string())) {
            Err(p) => viols.push(viol(
                "B-panic",
                format!("serialising into the binary format panicked: {}", p),
                fp,
            )),
            Ok(Err(_)) => stats.inc(C::pack_not_serialisable_in_shape),
            Ok(Ok(pj)) => {
                stats.inc(C::pack_runs);
                if matches!(shape, Shape::Tagged | Shape::Untagged | Shape::Flatten) {
                    stats.inc(C::pack_buffered_container_shapes);
                }
                // B0: in memory, no faults
                let b0_before = viols.len();
                let mut modes = vec![(false, false)];
                if (transient_strings, in_place) != (false, false) {
                    modes.push((transient_strings, in_place));
                }
                for (tr, ip) in modes {
                match guarded(|| read_pack(&mut &pj[..], tr, ip).map(|v| same_values(&v))) {
                    Err(p) => viols.push(viol(
                        "B-panic",
                        format!("deserialising an intact binary record ({} bytes, shape {}) panicked: {}", pj.len(), shape.name(), p),
                        fp,
                    )),
                    Ok(Err(e)) => viols.push(viol(
                        "B0-intact-record-fails",
                        format!(
                            "the crate's own Serialize output under a binary self-describing format ({} bytes, shape {}{}{}) is rejected by its Deserialize: {}",
                            pj.len(),
                            shape.name(),
                            if tr { ", strings handed over with visit_str" } else { "" },
                            if ip { ", deserialize_in_place" } else { "" },
                            e
                        ),
                        fp,
                    )),
                    Ok(Ok(Err(d))) => viols.push(viol(
                        "B0-round-trip-differs",
                        format!(
                            "binary format, shape {}{}{}: the value read back differs: {}",
                            shape.name(),
                            if tr { ", strings handed over with visit_str" } else { "" },
                            if ip { ", deserialize_in_place" } else { "" },
                            d
                        ),
                        fp,
                    )),
                    Ok(Ok(Ok(()))) => stats.inc(C::pack_in_memory_round_trips_ok),
                }
                }
                let b0_ok = viols.len() == b0_before;

                // B-W: onto the simulated medium
                let mut pdisk = Disk::default();
                let mut pctl = WriteCtl::new(
                    plan.pack.write_sched.clone(),
                    plan.pack.flush_sched.clone(),
                    rng_pw,
                    cfg.clone(),
                    plan.knobs.sync_each_write,
                );
                struct POut {
                    ser: Result<Result<(), String>, String>,
                    flush: Option<Result<(), String>>,
                    accepted: usize,
                    diverged_at: Option<usize>,
                    terminal_in_ser: usize,
                    after_terminal: usize,
                }
                fn drive_pack<W: io::Write, S: Serialize>(w: W, pj: &[u8], value: &S) -> (POut, W) {
                    let mut shim = Shim::new(w, pj);
                    let ser = guarded(|| crate::pack::to_writer(&mut shim, value).map_err(|e| e.to_string()));
                    let terminal_in_ser = shim.terminal_errors;
                    let after_terminal = shim.writes_after_terminal;
                    let flush = match &ser {
                        Ok(Ok(())) => Some(match guarded(|| shim.flush().map_err(|e| e.to_string())) {
                            Ok(r) => r,
                            Err(p) => Err(p),
                        }),
                        _ => None,
                    };
                    (
                        POut {
                            ser,
                            flush,
                            accepted: shim.accepted,
                            diverged_at: shim.diverged_at,
                            terminal_in_ser,
                            after_terminal,
                        },
                        shim.inner,
                    )
                }
                let pout: POut = {
                    let mut sw = SimWriter { disk: &mut pdisk, ctl: &mut pctl, stats: &mut *stats, nested: None };
                    match plan.knobs.bufwriter {
                        None => drive_pack(&mut sw, &pj, &recser).0,
                        Some(cap) => {
                            let bw = io::BufWriter::with_capacity(cap.max(1), &mut sw);
                            let (o, bw) = drive_pack(bw, &pj, &recser);
                            let _ = guarded(move || drop(bw));
                            o
                        }
                    }
                };
                let pcrashed = pdisk.crashed;
                let packed = matches!(pout.ser, Ok(Ok(()))) && matches!(pout.flush, Some(Ok(()))) && !pcrashed;
                match &pout.ser {
                    Err(p) if pctl.sink_panicked && p.contains(SINK_PANIC) => {}
                    Err(p) => viols.push(viol(
                        "B-panic",
                        format!("serialising into the binary format onto the medium panicked: {}", p),
                        fp,
                    )),
                    Ok(r) => {
                        if r.is_ok() && pout.terminal_in_ser > 0 {
                            viols.push(viol(
                                "B2-acked-after-sink-error",
                                format!(
                                    "binary format: the writer returned {} terminal error(s), yet serialising returned Ok; medium holds {} of {} bytes",
                                    pout.terminal_in_ser,
                                    pdisk.bytes.len(),
                                    pj.len()
                                ),
                                fp,
                            ));
                        }
                        if r.is_err() && pout.terminal_in_ser == 0 && b0_ok {
                            viols.push(viol(
                                "B4-error-invented",
                                format!("binary format: no write failed, yet serialising returned Err({})", r.as_ref().unwrap_err()),
                                fp,
                            ));
                        }
                    }
                }
                if let (Some(at), 0) = (pout.diverged_at, pout.after_terminal) {
                    viols.push(viol(
                        "B1-bytes-diverge",
                        format!("binary format: bytes handed to the sink differ from the in-memory serialisation of the same value at offset {}", at),
                        fp,
                    ));
                }
                if packed && !pdisk.corrupted && (pdisk.bytes != pj || pout.accepted != pj.len()) {
                    viols.push(viol(
                        "B1-acknowledged-bytes-inexact",
                        format!(
                            "binary format: acknowledged record holds {} bytes, the in-memory serialisation {} bytes, or they differ",
                            pdisk.bytes.len(),
                            pj.len()
                        ),
                        fp,
                    ));
                }
                stats.inc(if pcrashed {
                    C::pack_wr_crashed
                } else if packed {
                    C::pack_wr_acknowledged
                } else {
                    C::pack_wr_failed_honestly
                });
                stats.add(C::pack_write_faults_delivered, pctl.faults_delivered as u64);
                pack_faults += pctl.faults_delivered;
                log.u64(pctl.log.0);
                effective.pack.write_sched = std::mem::take(&mut pctl.src.made);
                trim_default(&mut effective.pack.write_sched, |d| *d == WDec::Accept);
                effective.pack.flush_sched = std::mem::take(&mut pctl.flush_src.made);
                trim_default(&mut effective.pack.flush_sched, |d| *d == FlushDec::Ok);

                // B-R: recovery of what survived, through the simulated reader
                let pdata = pdisk.bytes.clone();
                let pintact = pdata == pj;
                let torn = !pintact && !pdisk.corrupted && pj.starts_with(&pdata);
                log.bytes(&pdata);
                let mut reader = SimReader::new(&pdata, plan.pack.read_sched.clone(), rng_pr, cfg.clone(), stats);
                let res = guarded(|| read_pack(&mut reader, transient_strings, in_place));
                let terminal = reader.terminal_at.is_some();
                let rfaults = reader.faults_delivered;
                let made = std::mem::take(&mut reader.src.made);
                let rlog = reader.log.0;
                drop(reader);
                log.u64(rlog);
                stats.add(C::pack_read_faults_delivered, rfaults as u64);
                pack_faults += rfaults;
                effective.pack.read_sched = made;
                trim_default(&mut effective.pack.read_sched, |d| *d == RDec::Chunk(usize::MAX));
                if b0_ok {
                    match (&res, pintact) {
                        (Err(p), true) => viols.push(viol(
                            "B-panic",
                            format!("deserialising an intact binary record through a reader panicked: {}", p),
                            fp,
                        )),
                        (Err(_), false) => stats.inc(C::pack_reads_non_intact_other),
                        (Ok(Ok(vals)), true) => match guarded(|| same_values(vals)) {
                            Ok(Ok(())) => stats.inc(C::pack_reads_intact_ok),
                            Ok(Err(d)) => viols.push(viol(
                                "B3-wrong-value-read",
                                format!("binary format, intact record read in pieces: {}", d),
                                fp,
                            )),
                            Err(p) => viols.push(viol("B-panic", format!("comparing the value read panicked: {}", p), fp)),
                        },
                        (Ok(Err(e)), true) => {
                            if terminal {
                                stats.inc(C::pack_reads_intact_under_terminal_fault);
                            } else {
                                viols.push(viol(
                                    "B3-intact-record-not-recovered",
                                    format!(
                                        "binary format: the intact record reads back in memory, but not through a reader that delivers it in pieces without any terminal error: {}",
                                        e
                                    ),
                                    fp,
                                ));
                            }
                        }
                        (Ok(Ok(_)), false) => {
                            if torn {
                                viols.push(viol(
                                    "B3-torn-record-accepted",
                                    format!(
                                        "binary format: a record torn after {} of {} bytes was read back as a complete value",
                                        pdata.len(),
                                        pj.len()
                                    ),
                                    fp,
                                ));
                            } else {
                                stats.inc(C::pack_reads_non_intact_other);
                            }
                        }
                        (Ok(Err(_)), false) => {
                            stats.inc(if torn { C::pack_reads_torn_rejected } else { C::pack_reads_non_intact_other });
                        }
                    }
                }
            }
        }
    }

    // ---- bookkeeping -------------------------------------------------------------------------------
    let any_fault = fmt_faults + write_faults + read_faults_total + reentered + pack_faults > 0 || flipped;
    if any_fault {
        stats.inc(C::runs_with_fault_delivered);
    } else {
        stats.inc(C::runs_fault_free_plan);
    }
    let nontrivial = (write_faults > 0 && wout.shim_calls > 0)
        || fmt_faults > 0
        || reentered > 0
        || (read_faults_total > 0 && !data.is_empty())
        || pack_faults > 0
        || flipped;
    let mut key = Fnv::default();
    key.bytes(spec_text(&plan.value).as_bytes());
    key.bytes(format!("{:?}", (&effective.knobs, &effective.fmt_sched, &effective.write_sched, &effective.flush_sched, &effective.flips, &effective.reads, &effective.pack)).as_bytes());
    if nontrivial {
        stats.inc(C::runs_nontrivial);
        stats.nontrivial_keys.push(key.0);
    }
    let summary = serde_json::json!({
        "value": spec_text(&plan.value),
        "printed": printed,
        "record": String::from_utf8_lossy(&j),
        "knobs": effective.knobs,
        "fmt_schedule": effective.fmt_sched,
        "write_schedule": effective.write_sched,
        "flush_schedule": effective.flush_sched,
        "write_result": match &wout.ser { Ok(Ok(())) => "Ok".to_string(), Ok(Err(e)) => format!("Err({})", e), Err(p) => format!("panic({})", p) },
        "acknowledged": acked,
        "crashed": crashed,
        "surviving_bytes": String::from_utf8_lossy(&data),
        "flips": effective.flips,
        "reads": effective.reads,
        "binary_format_phase": effective.pack,
        "faults_delivered": { "fmt": fmt_faults, "write": write_faults, "read": read_faults_total, "binary_format_phase": pack_faults, "reentrant_operations": reentered },
    });
    // Advisory observations: things worth telling a maintainer that C12 / C13 do not state, so
    // they never change the verdict (DESIGN 7.8).
    //  * REENTRANCY: anything observed after the in-memory baseline in a run in which a stub
    //    re-entered the crate.
    //  * PROTOCOL: a printing or serialising call that reported the sink's failure but did not
    //    stop at it (writes after the error, hence bytes that are no prefix of the record, and
    //    serde_json's own debug assertion about exactly that).  The caller was told the call
    //    failed; an *acknowledged* call with wrong bytes is W1 / W2 / P1 and stays a violation.
    //  * ROBUSTNESS: a panic while reading bytes that are not the record that was written (torn,
    //    lost or flipped) - what the parser does with arbitrary text is C05 / C06's business.
    //  * FORMAT: everything phase B observes (the simulator's second, binary format).
    let strict = STRICT_ADVISORY.load(std::sync::atomic::Ordering::Relaxed);
    let mut violations: Vec<Violation> = Vec::new();
    let mut advisory: Vec<Violation> = Vec::new();
    for v in viols {
        let kind: Option<&'static str> = if strict {
            None
        } else if reentered > 0 && !v.class.starts_with("G0-") {
            Some("REENTRANCY")
        } else if v.class == "P3-write-after-sink-error"
            || v.class == "W3-write-after-sink-error"
            || (v.class == "W3-bytes-diverge" && wout.writes_after_terminal > 0)
            || (v.class == "W-panic" && v.detail.contains("error.is_none()"))
        {
            Some("PROTOCOL")
        } else if v.class == "R-panic" && !intact {
            Some("ROBUSTNESS")
        } else if v.class.starts_with("B0-")
            || v.class.starts_with("B1-")
            || v.class.starts_with("B2-")
            || v.class.starts_with("B3-")
            || v.class.starts_with("B4-")
            || v.class == "B-panic"
        {
            // phase B: C12 speaks of JSON ("serialising to JSON and back") and C13 of the same
            // round trip; what the crate does under another format - above all a wire shape
            // chosen by `is_human_readable()`, which serde's buffering containers are known to
            // misreport - is worth a note, not a verdict
            Some("FORMAT")
        } else {
            None
        };
        match kind {
            None => violations.push(v),
            Some(k) => {
                stats.inc(match k {
                    "REENTRANCY" => C::advisory_reentrancy_observations,
                    "PROTOCOL" => C::advisory_protocol_observations,
                    "FORMAT" => C::advisory_format_observations,
                    _ => C::advisory_robustness_observations,
                });
                if stats.advisory_samples.len() < 12 && !stats.advisory_samples.iter().any(|x| x.0 == v.class && x.2 == k) {
                    stats.advisory_samples.push((v.class.clone(), v.detail.clone(), k));
                }
                advisory.push(v);
            }
        }
    }
    Outcome {
        effective,
        violations,
        advisory,
        log_digest: log.0,
        nontrivial,
        dedup_key: key.0,
        built: true,
        summary,
        counts,
    }
}
