//! A run is fully described by a `Plan`: the value, the knobs, and one decision list per stub.
//! In search mode the lists start empty and are filled from the per-run PRNG as the stubs are
//! called; the *effective* plan (every decision actually taken) is what gets recorded, minimised,
//! written to the replay file and replayed.  Replay never consults a PRNG: a decision list that
//! runs out is continued with the benign default, so a shortened list is still executable.

use crate::prng::Rng;
use serde::{Deserialize, Serialize};

/// Decision for one `io::Write::write` call on the simulated writer.
#[derive(Clone, Debug, PartialEq, Eq, Serialize, Deserialize)]
pub enum WDec {
    /// accept the whole buffer
    Accept,
    /// accept only the first n bytes (1 <= n < len; clamped)
    Short(usize),
    /// `ErrorKind::Interrupted`, nothing accepted
    Eintr,
    /// this call fails (`ErrorKind::Other`), later calls work again
    HardTransient,
    /// this and every later call fail
    HardSticky,
    /// `Ok(0)`: device full
    Full,
    /// report success for the whole buffer but store nothing (lost write)
    Lost,
    /// accept the buffer, but first run another operation of the crate on this thread, from
    /// inside the call (a sink that itself serialises a value - a logging or tee writer)
    Reenter,
    /// the writer panics (an assertion inside the caller's `Write` impl); the caller isolates
    /// the panic with `catch_unwind` and carries on using the thread
    Panic,
    /// the process dies inside this call: `keep_call` bytes of this buffer reach the medium,
    /// then of everything not yet made durable only the first `keep_tail` bytes survive
    Crash { keep_call: usize, keep_tail: usize },
}

/// Decision for one `flush` call on the simulated writer.
#[derive(Clone, Debug, PartialEq, Eq, Serialize, Deserialize)]
pub enum FlushDec {
    Ok,
    Err,
    /// the process dies during the flush; `keep_tail` as above
    Crash { keep_tail: usize },
}

/// Decision for one `io::Read::read` call on the simulated reader.
#[derive(Clone, Debug, PartialEq, Eq, Serialize, Deserialize)]
pub enum RDec {
    /// deliver up to n bytes (n >= 1; clamped to what is left and to the caller's buffer)
    Chunk(usize),
    Eintr,
    Hard,
    /// `Ok(0)` although bytes remain
    Eof,
    /// deliver the whole buffer, but first deserialise another value on this thread from inside
    /// the call
    Reenter,
}

/// Decision for one `fmt::Write::write_str` call on the simulated formatter sink.
#[derive(Clone, Debug, PartialEq, Eq, Serialize, Deserialize)]
pub enum FDec {
    Accept,
    FailTransient,
    FailSticky,
    /// accept the fragment, but first print another value on this thread from inside the call
    /// (a formatter sink that itself formats a value)
    Reenter,
    /// the sink panics; the caller catches the panic and carries on using the thread
    Panic,
}

/// How the stored text is handed to `Deserialize`.
#[derive(Clone, Copy, Debug, PartialEq, Eq, PartialOrd, Ord, Serialize, Deserialize)]
pub enum Delivery {
    /// `serde_json::from_reader(SimReader)` - byte-at-a-time, transient `visit_str`
    Reader,
    /// `serde_json::from_reader(BufReader::with_capacity(n, SimReader))`
    BufReader(usize),
    /// `serde_json::from_str` - lends the string out of the input (`visit_borrowed_str`)
    Str,
    /// `serde_json::from_value(Value)` - owned `visit_string`
    Value,
    /// `serde::de::value::StrDeserializer` (transient `visit_str`), no JSON involved
    DeStr,
    /// `serde::de::value::StringDeserializer` (owned `visit_string`)
    DeString,
    /// `serde::de::value::BorrowedStrDeserializer` (`visit_borrowed_str`)
    DeBorrowed,
    /// the same JSON value re-encoded by another writer (`\uXXXX` escapes, blanks around it),
    /// read with `from_str` - forces serde_json's scratch-buffer path even for in-memory input
    EscapedStr,
    /// as above through `from_reader(SimReader)`
    EscapedReader,
    /// `Deserialize::deserialize_in_place` from a `&str` deserializer into a slot (or a `Vec`
    /// whose elements, or an `Option`) that already holds another value
    InPlaceStr,
    /// the same from `from_reader(SimReader)`
    InPlaceReader,
}

pub const ALL_DELIVERIES: [Delivery; 8] = [
    Delivery::Reader,
    Delivery::BufReader(7),
    Delivery::Str,
    Delivery::Value,
    Delivery::EscapedStr,
    Delivery::EscapedReader,
    Delivery::InPlaceStr,
    Delivery::InPlaceReader,
];
// `DeStr`, `DeString` and `DeBorrowed` (serde::de::value's string deserializers) are no longer
// used: they forward every hint to `visit_str`, so a derived newtype or an `Option` fails under
// them although every real format honours the hint - a false alarm found by review (DESIGN 7.8).
// The three string delivery modes they stood for are covered by `from_str` (borrowed),
// reader / escaped input (transient) and `from_value` / `Content` buffering (owned).  The
// variants stay so that old replay files still load; they are never applicable.

impl Delivery {
    pub fn uses_reader(&self) -> bool {
        matches!(
            self,
            Delivery::Reader | Delivery::BufReader(_) | Delivery::EscapedReader | Delivery::InPlaceReader
        )
    }
    pub fn name(&self) -> &'static str {
        match self {
            Delivery::Reader => "from_reader",
            Delivery::BufReader(_) => "from_reader(BufReader)",
            Delivery::Str => "from_str",
            Delivery::Value => "from_value",
            Delivery::DeStr => "StrDeserializer",
            Delivery::DeString => "StringDeserializer",
            Delivery::DeBorrowed => "BorrowedStrDeserializer",
            Delivery::EscapedStr => "escaped+from_str",
            Delivery::EscapedReader => "escaped+from_reader",
            Delivery::InPlaceStr => "deserialize_in_place(from_str)",
            Delivery::InPlaceReader => "deserialize_in_place(from_reader)",
        }
    }
    pub fn index(&self) -> usize {
        match self {
            Delivery::Reader => 0,
            Delivery::BufReader(_) => 1,
            Delivery::Str => 2,
            Delivery::Value => 3,
            Delivery::DeStr => 4,
            Delivery::DeString => 5,
            Delivery::DeBorrowed => 6,
            Delivery::EscapedStr => 7,
            Delivery::EscapedReader => 8,
            Delivery::InPlaceStr => 9,
            Delivery::InPlaceReader => 10,
        }
    }
}

#[derive(Clone, Debug, PartialEq, Eq, Serialize, Deserialize)]
pub struct ReadPlan {
    pub delivery: Delivery,
    pub sched: Vec<RDec>,
}

/// How a printing call reaches the formatter sink.
#[derive(Clone, Copy, Debug, PartialEq, Eq, Serialize, Deserialize)]
pub enum FmtShape {
    /// `write!(sink, "{}", x)`
    Plain,
    /// `write!(sink, "<{}>", x)` - the value sits between two fragments written by the caller
    Framed,
    /// `write!(sink, "{} {}", x, x)` - two invocations of the same `Display` on one sink
    Twice,
}

#[derive(Clone, Debug, PartialEq, Eq, Serialize, Deserialize)]
pub struct Knobs {
    /// `Some(cap)`: a `std::io::BufWriter` of that capacity sits between serializer and medium
    pub bufwriter: Option<usize>,
    /// every accepted write is durable at once (O_SYNC-like); otherwise only `flush` makes
    /// bytes durable and a crash may tear anywhere in the unflushed tail
    pub sync_each_write: bool,
    /// `serde_json::to_writer_pretty` instead of `to_writer`
    pub pretty: bool,
    pub fmt_shape: FmtShape,
    /// the value used by re-entrant operations: a sibling of the outer value (same version,
    /// other build metadata) instead of an unrelated constant
    #[serde(default)]
    pub nested_sibling: bool,
    /// print and serialise a second, never-printed instance of the value (the reference texts
    /// come from the first one), and check afterwards that it still prints its own text
    #[serde(default)]
    pub fresh_instance: bool,
}

impl Default for Knobs {
    fn default() -> Self {
        Knobs {
            bufwriter: None,
            sync_each_write: false,
            pretty: false,
            fmt_shape: FmtShape::Plain,
            nested_sibling: false,
            fresh_instance: false,
        }
    }
}

/// Where a version value comes from.
#[derive(Clone, Debug, PartialEq, Eq, Serialize, Deserialize)]
pub enum VSrc {
    /// `Version::parse(text)`
    Text(String),
    /// built field by field from canonical identifiers (no parser involved)
    Fields(VModel),
    /// `Version::from((a, b, c))` / `((a, b, c, d))` through integer type number `ty` (0..10)
    Tuple { ty: u8, a: u64, b: u64, c: u64, d: Option<u64> },
}

#[derive(Clone, Debug, PartialEq, Eq, Serialize, Deserialize)]
pub enum IdModel {
    Num(u64),
    Alnum(String),
}

/// The reference model of a version: the five fields, drawn before any text exists.
#[derive(Clone, Debug, PartialEq, Eq, Serialize, Deserialize)]
pub struct VModel {
    pub major: u64,
    pub minor: u64,
    pub patch: u64,
    pub pre: Vec<IdModel>,
    pub build: Vec<IdModel>,
}

/// Where a range value comes from.
#[derive(Clone, Debug, PartialEq, Eq, Serialize, Deserialize)]
pub enum RSrc {
    /// `Range::parse(text)`
    Text(String),
    Intersect(Box<RSrc>, Box<RSrc>),
    Difference(Box<RSrc>, Box<RSrc>),
}

impl RSrc {
    pub fn is_parsed(&self) -> bool {
        matches!(self, RSrc::Text(_))
    }
    pub fn describe(&self) -> String {
        match self {
            RSrc::Text(t) => format!("parse({:?})", t),
            RSrc::Intersect(a, b) => format!("({} ∩ {})", a.describe(), b.describe()),
            RSrc::Difference(a, b) => format!("({} \\ {})", a.describe(), b.describe()),
        }
    }
}

/// The JSON document the items are embedded in.
#[derive(Clone, Copy, Debug, PartialEq, Eq, PartialOrd, Ord, Serialize, Deserialize)]
pub enum Shape {
    /// the bare value: `"1.2.3"`
    One,
    /// `["1.2.3", ...]`
    Many,
    /// a derived struct with the value in a field: `{"name":"pkg","v":"1.2.3","tags":["a","b"]}`
    Entry,
    /// an internally tagged enum, `{"kind":"Pin","v":"1.2.3"}`: serde buffers the object into
    /// `Content` and hands the value to `Deserialize` from that buffer
    Tagged,
    /// the values as JSON object keys: `{"1.2.3":0,"2.0.0":1}`
    Keyed,
    /// `Option<T>` holding the value: same JSON as the bare value, read through
    /// `deserialize_option` / `visit_some`
    Opt,
    /// an untagged enum `{ Item(T), Count(u64) }`: serde buffers the input into `Content` and tries
    /// each variant against a `ContentRefDeserializer`
    Untagged,
    /// a struct with `#[serde(flatten)]` around `{ "v": T }`: the value is read out of serde's
    /// flat-map buffer
    Flatten,
}

impl Shape {
    pub fn single(&self) -> bool {
        matches!(self, Shape::One | Shape::Entry | Shape::Tagged | Shape::Opt | Shape::Untagged | Shape::Flatten)
    }
    pub fn name(&self) -> &'static str {
        match self {
            Shape::One => "bare",
            Shape::Many => "array",
            Shape::Entry => "struct-field",
            Shape::Tagged => "tagged-enum",
            Shape::Keyed => "map-keys",
            Shape::Opt => "option",
            Shape::Untagged => "untagged-enum",
            Shape::Flatten => "flattened-struct",
        }
    }
}

#[derive(Clone, Debug, PartialEq, Eq, Serialize, Deserialize)]
pub enum ValueSpec {
    Versions { shape: Shape, items: Vec<VSrc> },
    Ranges { shape: Shape, items: Vec<RSrc> },
}

impl ValueSpec {
    pub fn version(s: VSrc) -> Self {
        ValueSpec::Versions { shape: Shape::One, items: vec![s] }
    }
    pub fn range(s: RSrc) -> Self {
        ValueSpec::Ranges { shape: Shape::One, items: vec![s] }
    }
    pub fn shape(&self) -> Shape {
        match self {
            ValueSpec::Versions { shape, .. } | ValueSpec::Ranges { shape, .. } => *shape,
        }
    }
    pub fn len(&self) -> usize {
        match self {
            ValueSpec::Versions { items, .. } => items.len(),
            ValueSpec::Ranges { items, .. } => items.len(),
        }
    }
}

#[derive(Clone, Debug, PartialEq, Eq, Serialize, Deserialize)]
pub struct Plan {
    pub value: ValueSpec,
    pub knobs: Knobs,
    pub fmt_sched: Vec<FDec>,
    pub write_sched: Vec<WDec>,
    pub flush_sched: Vec<FlushDec>,
    /// bit flips applied to the surviving bytes before recovery: (byte index, bit 0..7)
    pub flips: Vec<(usize, u8)>,
    pub reads: Vec<ReadPlan>,
    /// phase B: the same record through the simulator's second format (`pack.rs`)
    #[serde(default)]
    pub pack: PackPlan,
}

/// Decisions of the stubs in phase B (binary, self-describing, non-human-readable format).
#[derive(Clone, Debug, Default, PartialEq, Eq, Serialize, Deserialize)]
pub struct PackPlan {
    pub write_sched: Vec<WDec>,
    pub flush_sched: Vec<FlushDec>,
    pub read_sched: Vec<RDec>,
    /// the format hands strings over as `visit_str` on a transient buffer, not `visit_string`
    #[serde(default)]
    pub transient_strings: bool,
    /// the reader-side recovery uses `deserialize_in_place` into storage holding another value
    #[serde(default)]
    pub in_place: bool,
}

impl PackPlan {
    pub fn is_empty(&self) -> bool {
        self.write_sched.is_empty() && self.flush_sched.is_empty() && self.read_sched.is_empty()
    }
}

impl Plan {
    pub fn fault_free(value: ValueSpec) -> Plan {
        Plan {
            value,
            knobs: Knobs::default(),
            fmt_sched: vec![],
            write_sched: vec![],
            flush_sched: vec![],
            flips: vec![],
            reads: vec![],
            pack: PackPlan::default(),
        }
    }
}

// ------------------------------------------------------------------------------------------------
// Fault configuration of one search-mode run (swarm: drawn per run).

/// Probabilities are per stub call, in 1/1024.
#[derive(Clone, Debug, Default, Serialize, Deserialize)]
pub struct FaultCfg {
    pub w_short: u32,
    pub w_eintr: u32,
    pub w_hard_t: u32,
    pub w_hard_s: u32,
    pub w_full: u32,
    pub w_lost: u32,
    pub w_crash: u32,
    pub flush_err: u32,
    pub flush_crash: u32,
    pub r_eintr: u32,
    pub r_hard: u32,
    pub r_eof: u32,
    pub r_chunk_max: usize,
    pub f_fail_t: u32,
    pub f_fail_s: u32,
    pub flips: u8,
    pub w_reenter: u32,
    pub r_reenter: u32,
    pub f_reenter: u32,
    pub w_panic: u32,
    pub f_panic: u32,
}

impl FaultCfg {
    pub fn none() -> Self {
        FaultCfg {
            r_chunk_max: 64,
            ..Default::default()
        }
    }

    /// Swarm draw: each fault kind is enabled with probability 1/2 and gets its own rate.
    /// Rates are tuned so that most runs finish the write phase (a version makes 5-25 write
    /// calls, a range up to a few hundred): benign kinds up to ~25 % per call, terminal kinds
    /// around 1-4 %.
    pub fn swarm(rng: &mut Rng) -> Self {
        let mut c = FaultCfg::none();
        let benign = [20u32, 60, 120, 250];
        let terminal = [6u32, 12, 24, 40];
        if rng.coin() {
            c.w_short = *rng.pick(&benign);
        }
        if rng.coin() {
            c.w_eintr = *rng.pick(&benign);
        }
        if rng.coin() {
            c.w_hard_t = *rng.pick(&terminal);
        }
        if rng.coin() {
            c.w_hard_s = *rng.pick(&terminal);
        }
        if rng.coin() {
            c.w_full = *rng.pick(&terminal);
        }
        if rng.below(4) == 0 {
            c.w_lost = *rng.pick(&terminal);
        }
        if rng.coin() {
            c.w_crash = *rng.pick(&terminal);
        }
        if rng.below(4) == 0 {
            c.flush_err = 300;
        }
        if rng.below(4) == 0 {
            c.flush_crash = 300;
        }
        if rng.coin() {
            c.r_eintr = *rng.pick(&benign);
        }
        if rng.below(3) == 0 {
            c.r_hard = *rng.pick(&terminal);
        }
        if rng.below(3) == 0 {
            c.r_eof = *rng.pick(&terminal);
        }
        c.r_chunk_max = *rng.pick(&[1usize, 2, 3, 7, 16, 64]);
        if rng.coin() {
            c.f_fail_t = *rng.pick(&[20u32, 60, 120]);
        }
        if rng.coin() {
            c.f_fail_s = *rng.pick(&[20u32, 60, 120]);
        }
        // re-entrant operations live in runs of their own (one in eight): whatever such a run
        // observes after a re-entry is advisory, so they must not dilute the ordinary runs
        if rng.below(8) == 0 && !crate::stubs::NO_REENTER.load(std::sync::atomic::Ordering::Relaxed) {
            c.w_reenter = *rng.pick(&[20u32, 60, 120]);
            c.r_reenter = *rng.pick(&[20u32, 60]);
            c.f_reenter = *rng.pick(&[20u32, 60, 120]);
        }
        if rng.below(6) == 0 {
            c.w_panic = *rng.pick(&[6u32, 12, 24]);
        }
        if rng.below(6) == 0 {
            c.f_panic = *rng.pick(&[10u32, 30, 60]);
        }
        c.flips = match rng.below(8) {
            0 => 1,
            1 => 2,
            _ => 0,
        };
        c
    }
}

/// A decision stream: fixed prefix, then PRNG (search mode) or the benign default (replay).
pub struct Source<D: Clone> {
    fixed: Vec<D>,
    pos: usize,
    pub made: Vec<D>,
    /// hard cap on decisions that are not the benign default, so that no run is unbounded
    pub budget: usize,
}

impl<D: Clone> Source<D> {
    pub fn new(fixed: Vec<D>) -> Self {
        Source {
            fixed,
            pos: 0,
            made: Vec::new(),
            budget: 4096,
        }
    }

    /// Next decision: from the fixed list if any is left, otherwise `draw()` (search mode) or
    /// `default` (replay / enumeration).
    pub fn next(&mut self, default: D, draw: impl FnOnce() -> Option<D>) -> D {
        let d = if self.pos < self.fixed.len() {
            let d = self.fixed[self.pos].clone();
            self.pos += 1;
            d
        } else if self.budget > 0 {
            match draw() {
                Some(d) => {
                    self.budget -= 1;
                    d
                }
                None => default,
            }
        } else {
            default
        };
        self.made.push(d.clone());
        d
    }
}
