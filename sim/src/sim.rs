//! Batch drivers: seeded multi-fault search, exhaustive single-fault enumeration, minimisation.

use crate::gen::{self, Prop};
use crate::plan::*;
use crate::prng::{run_seed, Rng};
use crate::run::{execute, Outcome, Search, Violation};
use crate::stats::{Stats, C};
use std::sync::atomic::{AtomicU64, AtomicUsize, Ordering};
use std::sync::Mutex;

#[derive(Clone, Debug)]
pub struct Found {
    /// "search" or "enumeration"
    pub origin: &'static str,
    /// run index (search) or plan index (enumeration)
    pub index: u64,
    /// first run index of the chunk (search) / value index (enumeration) this run shared a
    /// thread with: everything executed on that thread before it is its possible history
    pub chunk_start: u64,
    pub plan: Plan,
    pub violation: Violation,
}

/// Run `f` on a thread of its own, so that no thread-local state of the code under test can
/// leak in from, or out to, anything else the simulator executes.
pub fn in_fresh_thread<R: Send>(f: impl FnOnce() -> R + Send) -> R {
    std::thread::scope(|s| s.spawn(f).join().expect("fresh thread panicked"))
}

pub struct BatchResult {
    pub stats: Stats,
    pub found: Vec<Found>,

    pub samples: Vec<serde_json::Value>,
    pub executed: u64,
    /// (run index, digest) pairs when requested
    pub digests: Vec<(u64, u64)>,
}

pub fn draw_knobs(rng: &mut Rng) -> Knobs {
    Knobs {
        bufwriter: if rng.below(3) == 0 {
            Some(*rng.pick(&[1usize, 2, 3, 5, 8, 16, 33, 64]))
        } else {
            None
        },
        sync_each_write: rng.below(4) == 0,
        pretty: rng.below(6) == 0,
        fmt_shape: match rng.below(6) {
            0 => FmtShape::Framed,
            1 => FmtShape::Twice,
            _ => FmtShape::Plain,
        },
        nested_sibling: rng.coin(),
        fresh_instance: rng.below(3) == 0,
    }
}

/// Everything about run `i` of the batch with base seed `base` is a pure function of `(base, i)`.
pub fn search_run(prop: Prop, base: u64, i: u64, fault_free_only: bool, stats: &mut Stats) -> Outcome {
    let mut rng = Rng::new(run_seed(base, i));
    let mut vr = rng.fork(0);
    let mut value = gen::gen_value_spec(&mut vr, prop);
    // one run in eight works on a sibling of the previous run's value (same version with other
    // build metadata or spelling, or the same text again): state that the code under test may
    // carry from call to call under a too-coarse key only shows on such neighbours.  Still a pure
    // function of (base, i): the previous run's value is re-derived from its seed.
    if i % CHUNK != 0 && rng.below(8) == 0 {
        let mut prev = Rng::new(run_seed(base, i - 1)).fork(0);
        let pv = gen::gen_value_spec(&mut prev, prop);
        let sib = match &pv {
            ValueSpec::Versions { items, .. } if !items.is_empty() => {
                gen::sibling_version(&mut vr, &items[items.len() - 1]).map(ValueSpec::version)
            }
            ValueSpec::Ranges { items, .. } if !items.is_empty() => {
                gen::sibling_range(&mut vr, &items[items.len() - 1]).map(ValueSpec::range)
            }
            _ => None,
        };
        if let Some(s) = sib {
            value = s;
        }
    }
    let mut kr = rng.fork(7);
    let knobs = draw_knobs(&mut kr);
    let cfg = if fault_free_only || rng.below(8) == 0 {
        FaultCfg::none()
    } else {
        FaultCfg::swarm(&mut rng)
    };
    let mut plan = Plan::fault_free(value);
    plan.knobs = knobs;
    execute(&plan, Some(Search { rng: rng.fork(9), cfg }), stats)
}

const MAX_FOUND: usize = 64;
pub const CHUNK: u64 = 512;

pub fn run_search(
    prop: Prop,
    base: u64,
    runs: u64,
    workers: usize,
    fault_free_only: bool,
    want_digests: bool,
) -> BatchResult {
    run_search_chunked(prop, base, runs, workers, fault_free_only, want_digests, CHUNK, "search")
}

/// `chunk` runs share one thread.  The ordinary batches use 512; the long-history pass puts all
/// its runs on a single thread, for state that needs tens of thousands of earlier operations to
/// go wrong (a cache keyed by a short hash, a counter that wraps).
#[allow(clippy::too_many_arguments)]
pub fn run_search_chunked(
    prop: Prop,
    base: u64,
    runs: u64,
    workers: usize,
    fault_free_only: bool,
    want_digests: bool,
    chunk: u64,
    origin: &'static str,
) -> BatchResult {
    let next = AtomicU64::new(0);
    let results: Mutex<Vec<(u64, Stats, Vec<Found>, Vec<serde_json::Value>, Vec<(u64, u64)>)>> =
        Mutex::new(Vec::new());
    std::thread::scope(|scope| {
        for _ in 0..workers.max(1) {
            scope.spawn(|| loop {
                let start = next.fetch_add(chunk, Ordering::Relaxed);
                if start >= runs {
                    break;
                }
                let end = (start + chunk).min(runs);
                // every chunk runs on a thread of its own: whatever hidden per-thread state the
                // code under test may keep, a run can only be influenced by the earlier runs of
                // its own chunk, which makes "runs start..=i" an exact, replayable history
                let (stats, found, samples, digests) = in_fresh_thread(|| {
                    let mut stats = Stats::default();
                    let mut found = Vec::new();
                    let mut samples = Vec::new();
                    let mut digests = Vec::new();
                    for i in start..end {
                        let out = search_run(prop, base, i, fault_free_only, &mut stats);
                        stats.log_digest = stats
                            .log_digest
                            .wrapping_add(out.log_digest.wrapping_mul(2 * i + 1));
                        if want_digests {
                            digests.push((i, out.log_digest));
                        }
                        if i < 3 || (i % 1000 == 17 && i < 20_000 && out.nontrivial) {
                            if out.built {
                                samples.push(serde_json::json!({"run": i, "case": out.summary}));
                            }
                        }
                        for v in out.violations {
                            if found.len() < MAX_FOUND && found.iter().filter(|f: &&Found| f.violation.class == v.class).count() < 8 {
                                found.push(Found {
                                    origin,
                                    index: i,
                                    chunk_start: start,
                                    plan: out.effective.clone(),
                                    violation: v,
                                });
                            }
                        }
                    }
                    (stats, found, samples, digests)
                });
                results.lock().unwrap().push((start, stats, found, samples, digests));
            });
        }
    });
    let mut parts = results.into_inner().unwrap();
    parts.sort_by_key(|p| p.0);
    let mut out = BatchResult {
        stats: Stats::default(),
        found: vec![],
        samples: vec![],
        executed: runs,
        digests: vec![],
    };
    for (_, s, f, smp, d) in parts {
        out.stats.merge(s);
        out.found.extend(f);
        if out.samples.len() < 8 {
            out.samples.extend(smp);
        }
        out.digests.extend(d);
    }
    out.samples.truncate(8);
    out
}

// ------------------------------------------------------------------------------------------------
// Exhaustive single-fault enumeration over one value

fn prefix<D: Clone>(default: D, k: usize, last: D) -> Vec<D> {
    let mut v = vec![default; k];
    v.push(last);
    v
}

/// All single-fault plans for one value.  `f` is called with each plan; returns number of plans.
pub fn enumerate_value(value: &ValueSpec, stats: &mut Stats, mut f: impl FnMut(&Plan, Outcome)) -> u64 {
    let mut n = 0u64;
    let mut exec = |plan: &Plan, stats: &mut Stats, f: &mut dyn FnMut(&Plan, Outcome)| {
        let out = execute(plan, None, stats);
        f(plan, out);
    };
    let reader_deliveries = [Delivery::Reader, Delivery::BufReader(7), Delivery::EscapedReader, Delivery::InPlaceReader];
    let is_list = value.shape() != Shape::One;
    let knob_sets: Vec<Knobs> = {
        let mut k = vec![
            Knobs::default(),
            Knobs { bufwriter: Some(8), ..Knobs::default() },
            Knobs { sync_each_write: true, ..Knobs::default() },
            Knobs { bufwriter: Some(3), sync_each_write: true, ..Knobs::default() },
            Knobs { nested_sibling: true, ..Knobs::default() },
            Knobs { fresh_instance: true, ..Knobs::default() },
        ];
        if is_list {
            k.push(Knobs { pretty: true, ..Knobs::default() });
        }
        k
    };
    // base run: every delivery mode, no fault
    let mut base = Plan::fault_free(value.clone());
    base.reads = ALL_DELIVERIES
        .iter()
        .map(|d| ReadPlan { delivery: *d, sched: vec![] })
        .collect();
    let base_out = execute(&base, None, stats);
    if !base_out.built {
        return 0;
    }
    let counts = base_out.counts.clone();
    f(&base, base_out);
    n += 1;

    // formatter sink: every write_str index x {transient, sticky}, in each shape
    for (shape, sibling, fresh) in [
        (FmtShape::Plain, false, false),
        (FmtShape::Framed, false, false),
        (FmtShape::Twice, false, false),
        (FmtShape::Plain, true, false),
        (FmtShape::Plain, false, true),
    ] {
        let mut p = Plan::fault_free(value.clone());
        p.knobs.fmt_shape = shape;
        p.knobs.nested_sibling = sibling;
        p.knobs.fresh_instance = fresh;
        let calls = if shape == FmtShape::Plain {
            counts.fmt_calls
        } else {
            let o = execute(&p, None, stats);
            o.counts.fmt_calls
        };
        for k in 0..calls {
            let kinds: &[FDec] = if sibling {
                &[FDec::Reenter]
            } else if fresh {
                &[FDec::FailTransient, FDec::FailSticky]
            } else {
                &[FDec::FailTransient, FDec::FailSticky, FDec::Reenter, FDec::Panic]
            };
            for d in kinds.iter().cloned() {
                let mut q = p.clone();
                q.fmt_sched = prefix(FDec::Accept, k, d);
                exec(&q, stats, &mut f);
                n += 1;
            }
        }
    }

    // writer: every write index x every fault kind, under each knob set
    for knobs in &knob_sets {
        let mut p = Plan::fault_free(value.clone());
        p.knobs = knobs.clone();
        p.reads = vec![ReadPlan { delivery: Delivery::Reader, sched: vec![] }];
        let lens = if *knobs == Knobs::default() {
            counts.write_lens.clone()
        } else {
            execute(&p, None, stats).counts.write_lens
        };
        for (k, &len) in lens.iter().enumerate() {
            // the two knob sets that exist for one purpose get the kinds that serve it
            let reduced = knobs.nested_sibling || knobs.fresh_instance;
            let mut kinds = if knobs.nested_sibling {
                vec![WDec::Reenter]
            } else if knobs.fresh_instance {
                vec![WDec::HardTransient, WDec::HardSticky, WDec::Full, WDec::Crash { keep_call: 0, keep_tail: usize::MAX }]
            } else {
                vec![
                    WDec::Eintr,
                    WDec::HardTransient,
                    WDec::HardSticky,
                    WDec::Full,
                    WDec::Lost,
                    WDec::Reenter,
                    WDec::Panic,
                ]
            };
            if len >= 2 && !reduced {
                kinds.push(WDec::Short(1));
                kinds.push(WDec::Short(usize::MAX));
            }
            // crash at every byte of this call, with the unflushed tail surviving fully, not at
            // all, or partly
            if !reduced {
                for keep_call in 0..=len {
                    for keep_tail in [usize::MAX, 0, 1, (counts.record_len / 2).max(2)] {
                        kinds.push(WDec::Crash { keep_call, keep_tail });
                    }
                }
            }
            for d in kinds {
                let mut q = p.clone();
                q.write_sched = prefix(WDec::Accept, k, d);
                exec(&q, stats, &mut f);
                n += 1;
            }
            if reduced {
                continue;
            }
            // EINTR directly followed by a hard error on the retry
            let mut q = p.clone();
            q.write_sched = prefix(WDec::Accept, k, WDec::Eintr);
            q.write_sched.push(WDec::HardTransient);
            exec(&q, stats, &mut f);
            n += 1;
        }
        // flush faults
        for d in [FlushDec::Err, FlushDec::Crash { keep_tail: 0 }, FlushDec::Crash { keep_tail: 3 }, FlushDec::Crash { keep_tail: usize::MAX }] {
            let mut q = p.clone();
            q.flush_sched = vec![d];
            exec(&q, stats, &mut f);
            n += 1;
        }
    }

    // reader: every read index x {EINTR, hard, EOF, 1-byte chunk}
    for (di, d) in ALL_DELIVERIES.iter().enumerate() {
        if !reader_deliveries.contains(d) {
            continue;
        }
        let calls = counts.read_calls.get(di).copied().unwrap_or(0);
        for k in 0..calls {
            for r in [RDec::Eintr, RDec::Hard, RDec::Eof, RDec::Chunk(1), RDec::Reenter] {
                let mut q = Plan::fault_free(value.clone());
                q.reads = vec![ReadPlan {
                    delivery: *d,
                    sched: prefix(RDec::Chunk(usize::MAX), k, r),
                }];
                exec(&q, stats, &mut f);
                n += 1;
            }
        }
    }

    // storage: every single bit of the record
    for i in 0..counts.data_len {
        for bit in 0..8u8 {
            let mut q = Plan::fault_free(value.clone());
            q.flips = vec![(i, bit)];
            q.reads = vec![
                ReadPlan { delivery: Delivery::Reader, sched: vec![] },
                ReadPlan { delivery: Delivery::Value, sched: vec![] },
                ReadPlan { delivery: Delivery::InPlaceStr, sched: vec![] },
            ];
            exec(&q, stats, &mut f);
            n += 1;
        }
    }
    n
}

pub fn run_enumeration(values: &[ValueSpec], workers: usize) -> BatchResult {
    let next = AtomicUsize::new(0);
    let results: Mutex<Vec<(usize, Stats, Vec<Found>, Vec<serde_json::Value>, u64)>> =
        Mutex::new(Vec::new());
    std::thread::scope(|scope| {
        for _ in 0..workers.max(1) {
            scope.spawn(|| loop {
                let vi = next.fetch_add(1, Ordering::Relaxed);
                if vi >= values.len() {
                    break;
                }
                let (stats, found, samples, n) = in_fresh_thread(|| {
                    let mut stats = Stats::default();
                    let mut found: Vec<Found> = Vec::new();
                    let mut samples = Vec::new();
                    let mut idx = 0u64;
                    let mut digest = 0u64;
                    let n = enumerate_value(&values[vi], &mut stats, |_plan, out| {
                        digest = digest.wrapping_add(out.log_digest.wrapping_mul(2 * idx + 1));
                        if vi < 2 && (idx == 0 || idx == 40) {
                            samples.push(serde_json::json!({"value_index": vi, "plan_index": idx, "case": out.summary}));
                        }
                        for v in out.violations {
                            if found.len() < MAX_FOUND && found.iter().filter(|f: &&Found| f.violation.class == v.class).count() < 8 {
                                found.push(Found {
                                    origin: "enumeration",
                                    index: ((vi as u64) << 32) | idx,
                                    chunk_start: vi as u64,
                                    plan: out.effective.clone(),
                                    violation: v,
                                });
                            }
                        }
                        idx += 1;
                    });
                    stats.log_digest = digest.wrapping_mul(2 * vi as u64 + 1);
                    (stats, found, samples, n)
                });
                results.lock().unwrap().push((vi, stats, found, samples, n));
            });
        }
    });
    let mut parts = results.into_inner().unwrap();
    parts.sort_by_key(|p| p.0);
    let mut out = BatchResult {
        stats: Stats::default(),
        found: vec![],
        samples: vec![],
        executed: 0,
        digests: vec![],
    };
    for (_, s, f, smp, n) in parts {
        out.stats.merge(s);
        out.found.extend(f);
        out.samples.extend(smp);
        out.executed += n;
    }
    out
}

// ------------------------------------------------------------------------------------------------
// Minimisation: shrink schedule, knobs and value while the same violation class persists.

/// Does the plan, executed alone on a fresh thread, show the violation class?
pub fn still_fails(plan: &Plan, class: &str) -> bool {
    history_fails(&[], plan, class)
}

/// Execute `prior` and then `last` in order on one fresh thread (replay mode, no PRNG) and
/// report whether `last` shows the violation class.
pub fn history_fails(prior: &[Plan], last: &Plan, class: &str) -> bool {
    in_fresh_thread(|| {
        let mut scratch = Stats::default();
        for p in prior {
            let _ = execute(p, None, &mut scratch);
        }
        let out = execute(last, None, &mut scratch);
        out.violations.iter().any(|v| v.class == class)
    })
}

pub struct Repro {
    /// plans to execute, in order, on one thread before `plan`
    pub history: Vec<Plan>,
    pub plan: Plan,
    pub reproducible: bool,
    pub attempts: u64,
    pub note: String,
}

pub struct ReproCtx<'a> {
    pub prop: Prop,
    pub long_base: u64,
    pub search_base: u64,
    pub fault_free_base: u64,
    pub fault_free_only: bool,
    pub enum_values: &'a [ValueSpec],
}

/// Turn a violation found in a batch into something that replays exactly: the minimised plan
/// alone if it fails in isolation, otherwise the plan together with the minimised list of
/// earlier runs of its thread (hidden state in the code under test).
pub fn reproduce(f: &Found, ctx: &ReproCtx) -> Repro {
    // reporting must stay bounded: a history of hundreds of runs is shrunk only as far as the
    // budget allows, and what is left still replays exactly
    let deadline = std::time::Instant::now() + std::time::Duration::from_secs(25);
    let out_of_time = || std::time::Instant::now() > deadline;
    let class = f.violation.class.as_str();
    if still_fails(&f.plan, class) {
        let (plan, attempts) = minimise(&f.plan, class);
        return Repro { history: vec![], plan, reproducible: true, attempts, note: String::new() };
    }
    // collect what ran on the same thread before it
    let mut prior: Vec<Plan> = in_fresh_thread(|| {
        let mut scratch = Stats::default();
        let mut plans = Vec::new();
        match f.origin {
            "enumeration" => {
                let vi = f.chunk_start as usize;
                let upto = f.index & 0xFFFF_FFFF;
                let mut idx = 0u64;
                if let Some(v) = ctx.enum_values.get(vi) {
                    enumerate_value(v, &mut scratch, |_p, out| {
                        if idx < upto {
                            plans.push(out.effective.clone());
                        }
                        idx += 1;
                    });
                }
            }
            "algebra-corpus" => {
                for v in algebra_values().into_iter().take(f.index as usize) {
                    let mut plan = Plan::fault_free(v);
                    plan.reads = ALL_DELIVERIES.iter().map(|d| ReadPlan { delivery: *d, sched: vec![] }).collect();
                    let out = execute(&plan, None, &mut scratch);
                    plans.push(out.effective);
                }
            }
            origin => {
                let (base, ff) = if origin == "fault-free-search" {
                    (ctx.fault_free_base, true)
                } else if origin == "long-history-search" {
                    (ctx.long_base, false)
                } else {
                    (ctx.search_base, ctx.fault_free_only)
                };
                for i in f.chunk_start..f.index {
                    let out = search_run(ctx.prop, base, i, ff, &mut scratch);
                    plans.push(out.effective);
                }
            }
        }
        plans
    });
    let mut attempts = 1u64;
    if !history_fails(&prior, &f.plan, class) {
        return Repro {
            history: vec![],
            plan: f.plan.clone(),
            reproducible: false,
            attempts,
            note: "the violation reproduces neither in isolation nor after replaying the earlier runs of its thread: the code under test appears to keep state shared between threads; re-run the check with --workers 1 to observe it".into(),
        };
    }
    // shrink the history: shortest suffix first, then drop single runs
    let mut k = 1usize;
    while k < prior.len() {
        attempts += 1;
        if history_fails(&prior[prior.len() - k..], &f.plan, class) {
            prior = prior[prior.len() - k..].to_vec();
            break;
        }
        k *= 2;
    }
    // drop blocks of earlier runs (halves, quarters, ...), then single runs
    let mut block = (prior.len() / 2).max(1);
    while block >= 1 && !out_of_time() {
        let mut start = 0usize;
        while start < prior.len() && !out_of_time() {
            let end = (start + block).min(prior.len());
            let mut cand = prior.clone();
            cand.drain(start..end);
            attempts += 1;
            if history_fails(&cand, &f.plan, class) {
                prior = cand;
            } else {
                start = end;
            }
        }
        if block == 1 {
            break;
        }
        block /= 2;
    }
    // then the plans themselves: the failing one, and (for short histories) each earlier one
    let (plan, a) = if out_of_time() {
        (f.plan.clone(), 0)
    } else {
        minimise_with(&f.plan, &|p| !out_of_time() && history_fails(&prior, p, class))
    };
    attempts += a;
    let shrink_priors = if prior.len() <= 8 { prior.len() } else { 0 };
    for i in 0..shrink_priors {
        if out_of_time() {
            break;
        }
        let (shrunk, a) = minimise_with(&prior[i], &|p| {
            let mut h = prior.clone();
            h[i] = p.clone();
            history_fails(&h, &plan, class)
        });
        attempts += a;
        prior[i] = shrunk;
    }
    Repro {
        history: prior,
        plan,
        reproducible: true,
        attempts,
        note: "does not fail in isolation: needs the listed earlier runs on the same thread (hidden state in the code under test)".into(),
    }
}

fn shrink_text_candidates(t: &str, range: bool) -> Vec<String> {
    let mut out = Vec::new();
    if range {
        // drop alternatives
        let alts: Vec<&str> = t.split("||").collect();
        if alts.len() > 1 {
            for i in 0..alts.len() {
                let mut a = alts.clone();
                a.remove(i);
                out.push(a.join("||"));
            }
        }
        // drop comparators
        let toks: Vec<&str> = t.split(' ').collect();
        if toks.len() > 1 {
            for i in 0..toks.len() {
                let mut a = toks.clone();
                a.remove(i);
                out.push(a.join(" "));
            }
        }
    }
    // drop dot-separated pieces after the third
    let pieces: Vec<&str> = t.split('.').collect();
    if pieces.len() > 3 {
        for i in 3..pieces.len() {
            let mut a = pieces.clone();
            a.remove(i);
            out.push(a.join("."));
        }
    }
    // cut at + or last -
    if let Some(i) = t.rfind('+') {
        out.push(t[..i].to_string());
    }
    if let Some(i) = t.rfind('-') {
        if i > 0 {
            out.push(t[..i].to_string());
        }
    }
    // shorten digit runs and long identifiers
    let bytes = t.as_bytes();
    let mut i = 0;
    while i < bytes.len() {
        if bytes[i].is_ascii_alphanumeric() {
            let mut jx = i;
            while jx < bytes.len() && bytes[jx].is_ascii_alphanumeric() {
                jx += 1;
            }
            if jx - i > 1 {
                out.push(format!("{}{}{}", &t[..i], &t[i..i + 1], &t[jx..]));
                out.push(format!("{}{}{}", &t[..i], &t[i..i + (jx - i) / 2], &t[jx..]));
                if bytes[i..jx].iter().all(|b| b.is_ascii_digit()) {
                    out.push(format!("{}1{}", &t[..i], &t[jx..]));
                    out.push(format!("{}0{}", &t[..i], &t[jx..]));
                }
            }
            i = jx;
        } else {
            i += 1;
        }
    }
    // trim leading blanks / v prefix
    let tt = t.trim_start_matches(|c: char| c == 'v' || c == 'V' || c.is_whitespace());
    if tt.len() < t.len() {
        out.push(tt.to_string());
    }
    out.retain(|c| c.len() < t.len());
    out.sort_by_key(|c| c.len());
    out.dedup();
    out
}

fn shrink_value_candidates(v: &ValueSpec) -> Vec<ValueSpec> {
    let mut out = Vec::new();
    fn vsrc_c(s: &VSrc) -> Vec<VSrc> {
        match s {
            VSrc::Text(t) => shrink_text_candidates(t, false).into_iter().map(VSrc::Text).collect(),
            VSrc::Fields(m) => {
                let mut c = Vec::new();
                for i in 0..m.pre.len() {
                    let mut n = m.clone();
                    n.pre.remove(i);
                    c.push(VSrc::Fields(n));
                }
                for i in 0..m.build.len() {
                    let mut n = m.clone();
                    n.build.remove(i);
                    c.push(VSrc::Fields(n));
                }
                for (get, set) in [
                    (m.major, 0usize),
                    (m.minor, 1usize),
                    (m.patch, 2usize),
                ] {
                    if get > 1 {
                        let mut n = m.clone();
                        match set {
                            0 => n.major = 1,
                            1 => n.minor = 1,
                            _ => n.patch = 1,
                        }
                        c.push(VSrc::Fields(n));
                    }
                }
                c
            }
            VSrc::Tuple { ty, a, b, c, d } => {
                let mut v = Vec::new();
                if d.is_some() {
                    v.push(VSrc::Tuple { ty: *ty, a: *a, b: *b, c: *c, d: None });
                }
                if *a > 1 || *b > 1 || *c > 1 {
                    v.push(VSrc::Tuple { ty: *ty, a: (*a).min(1), b: (*b).min(1), c: (*c).min(1), d: *d });
                }
                v
            }
        }
    }
    fn rsrc_c(s: &RSrc) -> Vec<RSrc> {
        match s {
            RSrc::Text(t) => shrink_text_candidates(t, true).into_iter().map(RSrc::Text).collect(),
            RSrc::Intersect(a, b) | RSrc::Difference(a, b) => {
                let mk = |x: RSrc, y: RSrc| match s {
                    RSrc::Intersect(..) => RSrc::Intersect(Box::new(x), Box::new(y)),
                    _ => RSrc::Difference(Box::new(x), Box::new(y)),
                };
                let mut v = vec![(**a).clone(), (**b).clone()];
                for ca in rsrc_c(a) {
                    v.push(mk(ca, (**b).clone()));
                }
                for cb in rsrc_c(b) {
                    v.push(mk((**a).clone(), cb));
                }
                v
            }
        }
    }
    match v {
        ValueSpec::Versions { shape, items } => {
            // simpler document first
            if *shape != Shape::One {
                for s in items {
                    out.push(ValueSpec::version(s.clone()));
                }
            }
            if !shape.single() {
                for i in 0..items.len() {
                    let mut n = items.clone();
                    n.remove(i);
                    out.push(ValueSpec::Versions { shape: *shape, items: n });
                }
            }
            for i in 0..items.len() {
                for c in vsrc_c(&items[i]) {
                    let mut n = items.clone();
                    n[i] = c;
                    out.push(ValueSpec::Versions { shape: *shape, items: n });
                }
            }
        }
        ValueSpec::Ranges { shape, items } => {
            if *shape != Shape::One {
                for s in items {
                    out.push(ValueSpec::range(s.clone()));
                }
            }
            if !shape.single() {
                for i in 0..items.len() {
                    let mut n = items.clone();
                    n.remove(i);
                    out.push(ValueSpec::Ranges { shape: *shape, items: n });
                }
            }
            for i in 0..items.len() {
                for c in rsrc_c(&items[i]) {
                    let mut n = items.clone();
                    n[i] = c;
                    out.push(ValueSpec::Ranges { shape: *shape, items: n });
                }
            }
        }
    }
    out
}

pub fn minimise(plan: &Plan, class: &str) -> (Plan, u64) {
    minimise_with(plan, &|p| still_fails(p, class))
}

/// Shrink `plan` while `fails` keeps holding.
pub fn minimise_with(plan: &Plan, fails: &dyn Fn(&Plan) -> bool) -> (Plan, u64) {
    let mut best = plan.clone();
    let mut tried = 0u64;
    if !fails(&best) {
        return (best, 0);
    }
    let mut progress = true;
    let mut rounds = 0;
    while progress && rounds < 40 {
        progress = false;
        rounds += 1;
        let mut attempt = |cand: Plan, best: &mut Plan, tried: &mut u64| -> bool {
            if cand == *best {
                return false;
            }
            *tried += 1;
            if fails(&cand) {
                *best = cand;
                true
            } else {
                false
            }
        };
        // drop whole phases
        for which in 0..8 {
            let mut c = best.clone();
            match which {
                5 => c.pack = Default::default(),
                6 => c.pack.write_sched.clear(),
                7 => c.pack.read_sched.clear(),
                0 => c.reads.clear(),
                1 => c.flips.clear(),
                2 => c.write_sched.clear(),
                3 => c.fmt_sched.clear(),
                _ => c.flush_sched.clear(),
            }
            progress |= attempt(c, &mut best, &mut tried);
        }
        // single read plan
        if best.reads.len() > 1 {
            for i in 0..best.reads.len() {
                let mut c = best.clone();
                c.reads = vec![best.reads[i].clone()];
                if attempt(c, &mut best, &mut tried) {
                    progress = true;
                    break;
                }
            }
        }
        // knobs
        for which in 0..5 {
            let mut c = best.clone();
            match which {
                0 => c.knobs.bufwriter = None,
                1 => c.knobs.sync_each_write = false,
                2 => c.knobs.pretty = false,
                3 => {
                    c.knobs.nested_sibling = false;
                    c.knobs.fresh_instance = false;
                }
                _ => c.knobs.fmt_shape = FmtShape::Plain,
            }
            progress |= attempt(c, &mut best, &mut tried);
        }
        // neutralise decisions one at a time, from the end
        for i in (0..best.write_sched.len()).rev() {
            if i < best.write_sched.len() && best.write_sched[i] != WDec::Accept {
                let mut c = best.clone();
                c.write_sched[i] = WDec::Accept;
                while c.write_sched.last() == Some(&WDec::Accept) {
                    c.write_sched.pop();
                }
                progress |= attempt(c, &mut best, &mut tried);
            }
        }
        for i in (0..best.fmt_sched.len()).rev() {
            if i < best.fmt_sched.len() && best.fmt_sched[i] != FDec::Accept {
                let mut c = best.clone();
                c.fmt_sched[i] = FDec::Accept;
                while c.fmt_sched.last() == Some(&FDec::Accept) {
                    c.fmt_sched.pop();
                }
                progress |= attempt(c, &mut best, &mut tried);
            }
        }
        for i in (0..best.flips.len()).rev() {
            if i < best.flips.len() {
                let mut c = best.clone();
                c.flips.remove(i);
                progress |= attempt(c, &mut best, &mut tried);
            }
        }
        for r in 0..best.reads.len() {
            for i in (0..best.reads[r].sched.len()).rev() {
                if i < best.reads[r].sched.len() && best.reads[r].sched[i] != RDec::Chunk(usize::MAX) {
                    let mut c = best.clone();
                    c.reads[r].sched[i] = RDec::Chunk(usize::MAX);
                    while c.reads[r].sched.last() == Some(&RDec::Chunk(usize::MAX)) {
                        c.reads[r].sched.pop();
                    }
                    progress |= attempt(c, &mut best, &mut tried);
                }
            }
        }
        // simplify fault kinds: sticky -> transient, crash -> hard error
        for i in 0..best.write_sched.len() {
            if i >= best.write_sched.len() {
                break;
            }
            let simpler = match &best.write_sched[i] {
                WDec::HardSticky | WDec::Full | WDec::Crash { .. } => Some(WDec::HardTransient),
                WDec::Panic => None,
                _ => None,
            };
            if let Some(s) = simpler {
                let mut c = best.clone();
                c.write_sched[i] = s;
                progress |= attempt(c, &mut best, &mut tried);
            }
        }
        for i in 0..best.fmt_sched.len() {
            if i < best.fmt_sched.len() && best.fmt_sched[i] == FDec::FailSticky {
                let mut c = best.clone();
                c.fmt_sched[i] = FDec::FailTransient;
                progress |= attempt(c, &mut best, &mut tried);
            }
        }
        // shrink the value (first success per round, then start over)
        let mut budget = 400;
        for cand in shrink_value_candidates(&best.value) {
            if budget == 0 {
                break;
            }
            budget -= 1;
            let mut c = best.clone();
            c.value = cand;
            if attempt(c, &mut best, &mut tried) {
                progress = true;
                break;
            }
        }
    }
    (best, tried)
}

pub fn corpus_values(prop: Prop, extra_generated: usize, base: u64) -> Vec<ValueSpec> {
    let mut v: Vec<ValueSpec> = match prop {
        Prop::C12 => {
            let c = gen::version_corpus();
            let mut v: Vec<ValueSpec> = c.iter().cloned().map(ValueSpec::version).collect();
            let vs = |shape, items: Vec<VSrc>| ValueSpec::Versions { shape, items };
            v.push(vs(Shape::Many, vec![]));
            v.push(vs(Shape::Many, c[..3].to_vec()));
            v.push(vs(Shape::Many, vec![c[22].clone(), c[10].clone(), c[24].clone(), c[1].clone()]));
            v.push(vs(Shape::Entry, vec![c[22].clone()]));
            v.push(vs(Shape::Tagged, vec![c[11].clone()]));
            v.push(vs(Shape::Opt, vec![c[10].clone()]));
            v.push(vs(Shape::Untagged, vec![c[22].clone()]));
            v.push(vs(Shape::Flatten, vec![c[12].clone()]));
            v.push(vs(Shape::Keyed, vec![c[1].clone(), c[22].clone(), c[8].clone()]));
            v.push(vs(Shape::Keyed, vec![]));
            v
        }
        Prop::C13 => {
            let c = gen::range_corpus();
            let mut v: Vec<ValueSpec> = c.iter().cloned().map(ValueSpec::range).collect();
            let rs = |shape, items: Vec<RSrc>| ValueSpec::Ranges { shape, items };
            v.push(rs(Shape::Many, vec![]));
            v.push(rs(Shape::Many, c[..3].to_vec()));
            v.push(rs(Shape::Many, vec![c[56].clone(), c[8].clone(), c[49].clone()]));
            v.push(rs(Shape::Entry, vec![c[49].clone()]));
            v.push(rs(Shape::Tagged, vec![c[56].clone()]));
            v.push(rs(Shape::Opt, vec![c[7].clone()]));
            v.push(rs(Shape::Untagged, vec![c[49].clone()]));
            v.push(rs(Shape::Flatten, vec![c[54].clone()]));
            v.push(rs(Shape::Keyed, vec![c[7].clone(), c[54].clone()]));
            v
        }
    };
    // seeded generated values; a different stream from the search batch
    let mut i = 0u64;
    let mut got = 0usize;
    while got < extra_generated && i < 20 * extra_generated as u64 + 100 {
        let mut rng = Rng::new(run_seed(base ^ 0xE17A_11ED_C0DE, i));
        i += 1;
        let spec = gen::gen_value_spec(&mut rng, prop);
        // keep enumerated records moderately short: the cost is quadratic in the record length
        let mut scratch = Stats::default();
        let out = execute(&Plan::fault_free(spec.clone()), None, &mut scratch);
        if out.built && out.counts.record_len <= 120 && out.counts.record_len > 2 {
            v.push(spec);
            got += 1;
        }
    }
    v
}

/// Set operations over every ordered pair of the special ranges: run once each through the
/// fault-free plan (baseline, clean write, all deliveries), not through the fault enumeration.
pub fn algebra_values() -> Vec<ValueSpec> {
    let mut v = Vec::new();
    for a in gen::SPECIAL_RANGES {
        for b in gen::SPECIAL_RANGES {
            let (ta, tb) = (RSrc::Text((*a).to_string()), RSrc::Text((*b).to_string()));
            v.push(ValueSpec::range(RSrc::Intersect(Box::new(ta.clone()), Box::new(tb.clone()))));
            v.push(ValueSpec::range(RSrc::Difference(Box::new(ta), Box::new(tb))));
        }
    }
    v
}

pub fn run_baseline_only(values: &[ValueSpec]) -> BatchResult {
    let (stats, found) = in_fresh_thread(|| {
        let mut stats = Stats::default();
        let mut found = Vec::new();
        for (i, v) in values.iter().enumerate() {
            let mut plan = Plan::fault_free(v.clone());
            plan.reads = ALL_DELIVERIES.iter().map(|d| ReadPlan { delivery: *d, sched: vec![] }).collect();
            let out = execute(&plan, None, &mut stats);
            for viol in out.violations {
                if found.len() < MAX_FOUND && found.iter().filter(|f: &&Found| f.violation.class == viol.class).count() < 8 {
                    found.push(Found {
                        origin: "algebra-corpus",
                        index: i as u64,
                        chunk_start: 0,
                        plan: out.effective.clone(),
                        violation: viol,
                    });
                }
            }
        }
        (stats, found)
    });
    BatchResult { stats, found, samples: vec![], executed: values.len() as u64, digests: vec![] }
}

pub fn count_kind(stats: &Stats) -> u64 {
    stats.get(C::runs)
}

// ------------------------------------------------------------------------------------------------
// Process-level reproduction: for state the code under test shares between threads, a fresh
// thread is not a fresh start - only a fresh process is.

#[derive(serde::Serialize, serde::Deserialize)]
pub struct HistoryFile {
    pub class: String,
    pub history: Vec<Plan>,
    pub plan: Plan,
}

static CHILD_SEQ: AtomicU64 = AtomicU64::new(0);

fn temp_path(tag: &str) -> std::path::PathBuf {
    let n = CHILD_SEQ.fetch_add(1, Ordering::Relaxed);
    std::env::temp_dir().join(format!("semver-dst-{}-{}-{}.json", std::process::id(), tag, n))
}

/// Execute `prior` then `last` on the main thread of a fresh process; does `last` show `class`?
pub fn history_fails_in_child(prior: &[Plan], last: &Plan, class: &str) -> bool {
    let path = temp_path("hist");
    let hf = HistoryFile { class: class.to_string(), history: prior.to_vec(), plan: last.clone() };
    if std::fs::write(&path, serde_json::to_vec(&hf).unwrap()).is_err() {
        return false;
    }
    let exe = match std::env::current_exe() {
        Ok(e) => e,
        Err(_) => return false,
    };
    let st = std::process::Command::new(exe)
        .arg("exec-history")
        .arg("--no-reenter")
        .arg("--replay")
        .arg(&path)
        .stdout(std::process::Stdio::null())
        .stderr(std::process::Stdio::null())
        .status();
    let _ = std::fs::remove_file(&path);
    matches!(st.map(|s| s.code()), Ok(Some(10)))
}

/// Child side of `history_fails_in_child`.  Exit code 10 = the class shows, 0 = it does not.
pub fn exec_history(path: &std::path::Path) -> i32 {
    let hf: HistoryFile = match std::fs::read(path).ok().and_then(|b| serde_json::from_slice(&b).ok()) {
        Some(h) => h,
        None => return 2,
    };
    let mut scratch = Stats::default();
    for p in &hf.history {
        let _ = execute(p, None, &mut scratch);
    }
    let out = execute(&hf.plan, None, &mut scratch);
    if out.violations.iter().any(|v| v.class == hf.class) {
        10
    } else {
        0
    }
}

/// Child side of the sequential search: the whole batch on ONE thread of a fresh process, in a
/// fixed order (enumeration values, fault-free batch, swarm batch), until `class` first shows.
/// Writes the plans executed before it (at most `keep`) and the failing plan to `out`.
pub fn sequential_find(
    prop: Prop,
    seed: u64,
    runs: u64,
    enum_values: &[ValueSpec],
    class: &str,
    keep: usize,
    out: &std::path::Path,
) -> i32 {
    let mut scratch = Stats::default();
    let mut ring: std::collections::VecDeque<Plan> = std::collections::VecDeque::new();
    let mut hit: Option<Plan> = None;
    let mut push = |ring: &mut std::collections::VecDeque<Plan>, p: Plan| {
        if ring.len() == keep {
            ring.pop_front();
        }
        ring.push_back(p);
    };
    'outer: {
        for v in enum_values {
            let mut found: Option<Plan> = None;
            enumerate_value(v, &mut scratch, |_p, o| {
                if found.is_none() {
                    if o.violations.iter().any(|x| x.class == class) {
                        found = Some(o.effective.clone());
                    } else {
                        push(&mut ring, o.effective.clone());
                    }
                }
            });
            if let Some(p) = found {
                hit = Some(p);
                break 'outer;
            }
        }
        for (base, ff, n) in [(seed ^ 0xFF00_FF00, true, (runs / 4).max(1)), (seed, false, runs)] {
            for i in 0..n {
                let o = search_run(prop, base, i, ff, &mut scratch);
                if o.violations.iter().any(|x| x.class == class) {
                    hit = Some(o.effective);
                    break 'outer;
                }
                push(&mut ring, o.effective);
            }
        }
    }
    match hit {
        None => 0,
        Some(plan) => {
            let hf = HistoryFile { class: class.to_string(), history: ring.into_iter().collect(), plan };
            if std::fs::write(out, serde_json::to_vec(&hf).unwrap()).is_err() {
                return 2;
            }
            10
        }
    }
}

/// Last resort of `reproduce`: find the class again in a single-threaded fresh process and
/// minimise the history with one fresh process per attempt.
pub fn reproduce_in_processes(prop: Prop, seed: u64, runs: u64, enum_extra: usize, class: &str) -> Option<Repro> {
    let exe = std::env::current_exe().ok()?;
    let out = temp_path("seq");
    let st = std::process::Command::new(exe)
        .arg("sequential-find")
        .arg(prop.id())
        .arg("--no-reenter")
        .arg("--seed")
        .arg(seed.to_string())
        .arg("--runs")
        .arg(runs.to_string())
        .arg("--enum-values")
        .arg(enum_extra.to_string())
        .arg("--class")
        .arg(class)
        .arg("--replay")
        .arg(&out)
        .stdout(std::process::Stdio::null())
        .stderr(std::process::Stdio::null())
        .status()
        .ok()?;
    if st.code() != Some(10) {
        let _ = std::fs::remove_file(&out);
        return None;
    }
    let hf: HistoryFile = serde_json::from_slice(&std::fs::read(&out).ok()?).ok()?;
    let _ = std::fs::remove_file(&out);
    let mut prior = hf.history;
    let plan = hf.plan;
    let mut attempts = 1u64;
    if !history_fails_in_child(&prior, &plan, class) {
        return None;
    }
    if history_fails_in_child(&[], &plan, class) {
        prior.clear();
    }
    let mut k = 1usize;
    while k < prior.len() {
        attempts += 1;
        if history_fails_in_child(&prior[prior.len() - k..], &plan, class) {
            prior = prior[prior.len() - k..].to_vec();
            break;
        }
        k *= 2;
    }
    let mut i = prior.len();
    let mut budget = 200;
    while i > 0 && budget > 0 {
        i -= 1;
        budget -= 1;
        let mut cand = prior.clone();
        cand.remove(i);
        attempts += 1;
        if history_fails_in_child(&cand, &plan, class) {
            prior = cand;
        }
    }
    Some(Repro {
        history: prior,
        plan,
        reproducible: true,
        attempts,
        note: "does not replay on a fresh thread of the same process: the code under test keeps state shared between threads. Found again by running the whole batch on one thread of a fresh process; the listed earlier runs, executed in a fresh process, reproduce it".into(),
    })
}

