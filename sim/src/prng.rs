//! The only source of randomness in the simulator.  In-crate so that no dependency can change
//! the stream under us: SplitMix64 for seed derivation, xoshiro256** for the per-run streams.

pub const GOLDEN: u64 = 0x9E37_79B9_7F4A_7C15;

#[inline]
pub fn splitmix64(state: &mut u64) -> u64 {
    *state = state.wrapping_add(GOLDEN);
    let mut z = *state;
    z = (z ^ (z >> 30)).wrapping_mul(0xBF58_476D_1CE4_E5B9);
    z = (z ^ (z >> 27)).wrapping_mul(0x94D0_49BB_1331_11EB);
    z ^ (z >> 31)
}

/// Seed of run `i` of a batch with base seed `base`: a pure function of `(base, i)`.
pub fn run_seed(base: u64, i: u64) -> u64 {
    let mut s = base ^ GOLDEN.wrapping_mul(i.wrapping_add(1));
    splitmix64(&mut s)
}

#[derive(Clone, Debug)]
pub struct Rng {
    s: [u64; 4],
}

impl Rng {
    pub fn new(seed: u64) -> Self {
        let mut sm = seed;
        let s = [
            splitmix64(&mut sm),
            splitmix64(&mut sm),
            splitmix64(&mut sm),
            splitmix64(&mut sm),
        ];
        Rng { s }
    }

    /// An independent stream for a named sub-phase of a run.
    pub fn fork(&self, tag: u64) -> Rng {
        let mut sm = self.s[0] ^ self.s[2].rotate_left(17) ^ tag.wrapping_mul(GOLDEN);
        let _ = splitmix64(&mut sm);
        Rng::new(sm)
    }

    #[inline]
    pub fn next_u64(&mut self) -> u64 {
        let result = self.s[1].wrapping_mul(5).rotate_left(7).wrapping_mul(9);
        let t = self.s[1] << 17;
        self.s[2] ^= self.s[0];
        self.s[3] ^= self.s[1];
        self.s[1] ^= self.s[2];
        self.s[0] ^= self.s[3];
        self.s[2] ^= t;
        self.s[3] = self.s[3].rotate_left(45);
        result
    }

    /// Uniform in `0..n` (n > 0).  Modulo bias is irrelevant at these sizes.
    #[inline]
    pub fn below(&mut self, n: u64) -> u64 {
        debug_assert!(n > 0);
        self.next_u64() % n
    }

    #[inline]
    pub fn range(&mut self, lo: u64, hi_incl: u64) -> u64 {
        lo + self.below(hi_incl - lo + 1)
    }

    #[inline]
    pub fn usize_below(&mut self, n: usize) -> usize {
        self.below(n as u64) as usize
    }

    /// True with probability `per_1024 / 1024`.
    #[inline]
    pub fn chance(&mut self, per_1024: u32) -> bool {
        (self.next_u64() & 1023) < per_1024 as u64
    }

    #[inline]
    pub fn coin(&mut self) -> bool {
        self.next_u64() & 1 == 1
    }

    pub fn pick<'a, T>(&mut self, xs: &'a [T]) -> &'a T {
        &xs[self.usize_below(xs.len())]
    }
}

/// FNV-1a, used for event-log digests and de-duplication keys.  Not `std::hash` so that no
/// randomised hasher state can leak into anything the simulator reports.
#[derive(Clone, Copy, Debug)]
pub struct Fnv(pub u64);

impl Default for Fnv {
    fn default() -> Self {
        Fnv(0xcbf2_9ce4_8422_2325)
    }
}

impl Fnv {
    #[inline]
    pub fn byte(&mut self, b: u8) {
        self.0 ^= b as u64;
        self.0 = self.0.wrapping_mul(0x0000_0100_0000_01B3);
    }
    #[inline]
    pub fn bytes(&mut self, bs: &[u8]) {
        for &b in bs {
            self.byte(b);
        }
    }
    #[inline]
    pub fn u64(&mut self, x: u64) {
        self.bytes(&x.to_le_bytes());
    }
}
