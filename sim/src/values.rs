//! Building the values under test from their specs, and the comparisons the oracles use.
//! Everything here calls the real crate (`nodejs_semver`, built from /repo's working tree).

use crate::plan::{IdModel, RSrc, VModel, VSrc, ValueSpec};
use nodejs_semver::{Identifier, Range, Version, MAX_SAFE_INTEGER};
use crate::run::guarded;

pub fn model_to_version(m: &VModel) -> Version {
    fn ids(v: &[IdModel]) -> Vec<Identifier> {
        v.iter()
            .map(|i| match i {
                IdModel::Num(n) => Identifier::Numeric(*n),
                IdModel::Alnum(s) => Identifier::AlphaNumeric(s.clone()),
            })
            .collect()
    }
    Version {
        major: m.major,
        minor: m.minor,
        patch: m.patch,
        pre_release: ids(&m.pre),
        build: ids(&m.build),
    }
}

pub fn version_to_model(v: &Version) -> VModel {
    fn ids(v: &[Identifier]) -> Vec<IdModel> {
        v.iter()
            .map(|i| match i {
                Identifier::Numeric(n) => IdModel::Num(*n),
                Identifier::AlphaNumeric(s) => IdModel::Alnum(s.clone()),
            })
            .collect()
    }
    VModel {
        major: v.major,
        minor: v.minor,
        patch: v.patch,
        pre: ids(&v.pre_release),
        build: ids(&v.build),
    }
}

/// Is this identifier string canonical as an `AlphaNumeric` (non-empty, over `[0-9A-Za-z-]`,
/// and not something the parser would read as a number)?
pub fn canonical_alnum(s: &str) -> bool {
    // an all-digit string is a number, whatever its size: one that does not fit a u64 is an
    // `AlphaNumeric` only by this parser's fallback, which is not something to build values from
    !s.is_empty()
        && s.bytes().all(|b| b.is_ascii_alphanumeric() || b == b'-')
        && !s.bytes().all(|b| b.is_ascii_digit())
}

fn tuple_version(ty: u8, a: u64, b: u64, c: u64, d: Option<u64>) -> Option<Version> {
    macro_rules! conv {
        ($t:ty) => {{
            let (a, b, c) = (
                <$t>::try_from(a).ok()?,
                <$t>::try_from(b).ok()?,
                <$t>::try_from(c).ok()?,
            );
            match d {
                None => Some(Version::from((a, b, c))),
                Some(d) => Some(Version::from((a, b, c, <$t>::try_from(d).ok()?))),
            }
        }};
    }
    if a > MAX_SAFE_INTEGER || b > MAX_SAFE_INTEGER || c > MAX_SAFE_INTEGER {
        return None;
    }
    match ty % 10 {
        0 => conv!(u8),
        1 => conv!(u16),
        2 => conv!(u32),
        3 => conv!(u64),
        4 => conv!(usize),
        5 => conv!(i8),
        6 => conv!(i16),
        7 => conv!(i32),
        8 => conv!(i64),
        _ => conv!(isize),
    }
}

pub fn build_version(src: &VSrc) -> Option<Version> {
    match src {
        VSrc::Text(t) => guarded(|| Version::parse(t).ok()).ok().flatten(),
        VSrc::Fields(m) => {
            let ok = m.major <= MAX_SAFE_INTEGER
                && m.minor <= MAX_SAFE_INTEGER
                && m.patch <= MAX_SAFE_INTEGER
                && m.pre.iter().chain(m.build.iter()).all(|i| match i {
                    IdModel::Num(_) => true,
                    IdModel::Alnum(s) => canonical_alnum(s),
                });
            if !ok {
                return None;
            }
            // Identifiers are canonical by the type's own definition: `Numeric` for a number,
            // `AlphaNumeric` for a non-empty string over [0-9A-Za-z-] that is not a number.  The
            // only gate is length: the printed form must be something `parse` may accept at all.
            // (A gate "parsing the canonical text yields the same fields" was tried after the
            // first review and removed again: it hid changes that reclassify large numeric
            // identifiers, which three independent sub-agents wrote as C12 defects - DESIGN 7.8.)
            let v = model_to_version(m);
            let text = crate::gen::canonical_text(m);
            if text.len() <= nodejs_semver::MAX_LENGTH {
                Some(v)
            } else {
                None
            }
        }
        // a conversion that panics (a stricter debug_assert, say) makes the value unbuildable
        VSrc::Tuple { ty, a, b, c, d } => guarded(|| tuple_version(*ty, *a, *b, *c, *d)).ok().flatten(),
    }
}

/// `None` = not constructible (text does not parse, or a set operation returned `None`).
/// `Err(())` = a set operation panicked while constructing the operand (C06's business; the
/// value is skipped and counted).
pub fn build_range(src: &RSrc) -> Result<Option<Range>, ()> {
    match src {
        RSrc::Text(t) => guarded(|| Range::parse(t).ok()).map_err(|_| ()),
        RSrc::Intersect(a, b) => {
            let (a, b) = match (build_range(a)?, build_range(b)?) {
                (Some(a), Some(b)) => (a, b),
                _ => return Ok(None),
            };
            guarded(|| a.intersect(&b)).map_err(|_| ())
        }
        RSrc::Difference(a, b) => {
            let (a, b) = match (build_range(a)?, build_range(b)?) {
                (Some(a), Some(b)) => (a, b),
                _ => return Ok(None),
            };
            guarded(|| a.difference(&b)).map_err(|_| ())
        }
    }
}

/// Field-by-field identity of two versions, *including build metadata* (which `==` ignores).
pub fn version_identical(a: &Version, b: &Version) -> bool {
    a.major == b.major
        && a.minor == b.minor
        && a.patch == b.patch
        && a.pre_release == b.pre_release
        && a.build == b.build
}

pub fn version_diff_text(a: &Version, b: &Version) -> String {
    format!(
        "{:?} vs {:?}",
        (a.major, a.minor, a.patch, &a.pre_release, &a.build),
        (b.major, b.minor, b.patch, &b.pre_release, &b.build)
    )
}

/// Structural identity of two ranges as far as the public API can see it: `==` (which ignores
/// build metadata inside bound versions) plus equal printed forms (which do not).
pub fn range_identical(a: &Range, b: &Range) -> bool {
    a == b && a.to_string() == b.to_string()
}

/// Probe versions around every bound that occurs in a printed range: each bound version, its
/// neighbours in patch / minor / major, prerelease neighbours, with and without build metadata.
pub fn probes_for(printed: &str) -> Vec<Version> {
    let mut out: Vec<Version> = Vec::new();
    let mut push = |v: Version| {
        if v.major <= MAX_SAFE_INTEGER && v.minor <= MAX_SAFE_INTEGER && v.patch <= MAX_SAFE_INTEGER
        {
            out.push(v);
        }
    };
    for tok in printed.split(|c: char| c == ' ' || c == '|') {
        let t = tok.trim_start_matches(|c| c == '<' || c == '>' || c == '=');
        if t.is_empty() {
            continue;
        }
        let v = match guarded(|| Version::parse(t)) {
            Ok(Ok(v)) => v,
            _ => continue,
        };
        let rel = Version {
            pre_release: vec![],
            build: vec![],
            ..v.clone()
        };
        push(v.clone());
        push(rel.clone());
        for (dm, dn, dp) in [
            (0i64, 0i64, 1i64),
            (0, 0, -1),
            (0, 1, 0),
            (0, -1, 0),
            (1, 0, 0),
            (-1, 0, 0),
        ] {
            let adj = |x: u64, d: i64| -> Option<u64> {
                if d < 0 {
                    x.checked_sub(1)
                } else {
                    Some(x + d as u64)
                }
            };
            if let (Some(ma), Some(mi), Some(pa)) =
                (adj(rel.major, dm), adj(rel.minor, dn), adj(rel.patch, dp))
            {
                let n = Version {
                    major: ma,
                    minor: mi,
                    patch: pa,
                    pre_release: vec![],
                    build: vec![],
                };
                let mut npre = n.clone();
                npre.pre_release = vec![Identifier::Numeric(0)];
                push(n);
                push(npre);
            }
        }
        for pre in [
            vec![Identifier::Numeric(0)],
            vec![Identifier::Numeric(1)],
            vec![Identifier::AlphaNumeric("alpha".into())],
            vec![Identifier::AlphaNumeric("zzzz".into())],
        ] {
            let mut p = rel.clone();
            p.pre_release = pre;
            push(p);
        }
        if !v.pre_release.is_empty() {
            let mut longer = v.clone();
            longer.pre_release.push(Identifier::Numeric(0));
            push(longer);
            let mut shorter = v.clone();
            shorter.pre_release.pop();
            push(shorter);
        }
        let mut withbuild = v.clone();
        withbuild.build = vec![Identifier::AlphaNumeric("probe".into())];
        push(withbuild);
    }
    push(Version::from((0u64, 0u64, 0u64)));
    push(Version::from((0u64, 0u64, 0u64, 0u64)));
    push(Version::from((
        MAX_SAFE_INTEGER,
        MAX_SAFE_INTEGER,
        MAX_SAFE_INTEGER,
    )));
    // a range with hundreds of bounds: keep the comparison linear by taking an evenly spaced
    // sample of the probes (deterministic)
    const CAP: usize = 240;
    if out.len() > CAP {
        let n = out.len();
        out = (0..CAP).map(|i| out[i * n / CAP].clone()).collect();
    }
    out
}

/// Do two ranges admit the same versions on the probe set (`satisfies`, and bounds membership
/// observed through `allows_any` against the exact-version range)?
pub fn ranges_agree_on(a: &Range, b: &Range, probes: &[Version]) -> Result<(), String> {
    for p in probes {
        // `satisfies` and `allows_any` are the observation instruments here, not the subject: if
        // one of them panics (C06/C09's business) the probe is skipped rather than blamed on the
        // round trip
        let (sa, sb) = match (guarded(|| a.satisfies(p)), guarded(|| b.satisfies(p))) {
            (Ok(x), Ok(y)) => (x, y),
            _ => continue,
        };
        if sa != sb {
            return Err(format!("satisfies({}) differs: {} vs {}", p, sa, sb));
        }
        // bounds membership, asked through an exact range built by the parser; skipped when that
        // text does not parse
        if let Ok(Ok(exact)) = guarded(|| Range::parse(format!("={}", p))) {
            if let (Ok(ma), Ok(mb)) = (guarded(|| a.allows_any(&exact)), guarded(|| b.allows_any(&exact))) {
                if ma != mb {
                    return Err(format!("bounds membership of {} differs: {} vs {}", p, ma, mb));
                }
            }
        }
    }
    Ok(())
}

pub fn spec_text(spec: &ValueSpec) -> String {
    fn v(s: &VSrc) -> String {
        match s {
            VSrc::Text(t) => format!("parse({:?})", t),
            VSrc::Fields(m) => format!("fields({:?})", m),
            VSrc::Tuple { ty, a, b, c, d } => format!("tuple#{}({},{},{},{:?})", ty, a, b, c, d),
        }
    }
    let (shape, parts): (crate::plan::Shape, Vec<String>) = match spec {
        ValueSpec::Versions { shape, items } => (*shape, items.iter().map(v).collect()),
        ValueSpec::Ranges { shape, items } => (*shape, items.iter().map(|r| r.describe()).collect()),
    };
    if shape == crate::plan::Shape::One && parts.len() == 1 {
        parts[0].clone()
    } else {
        format!("{}[{}]", shape.name(), parts.join(", "))
    }
}
