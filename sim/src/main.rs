//! Deterministic simulation with fault injection for the stream/sink clauses of C12 and C13.
//! See /verif/DESIGN.md §2.  Exit codes: 0 held, 1 violation, 2 harness error.

mod gen;
mod pack;
mod plan;
mod prng;
mod run;
mod sim;
mod stats;
mod stubs;
mod values;

use gen::Prop;
use plan::{Plan, ValueSpec};
use run::Violation;
use serde::{Deserialize, Serialize};
use sim::Found;
use stats::{Stats, C, FAULT_NAMES, SITE_NAMES};
use std::path::{Path, PathBuf};
use std::time::Instant;

const DEFAULT_SEED: u64 = 20_261_001;

#[derive(Serialize, Deserialize, Clone, Debug)]
struct KnownFinding {
    id: String,
    property: String,
    /// "known" (open, suppressed and announced) or "fixed" (suppresses nothing)
    status: String,
    /// violation classes this finding produces
    classes: Vec<String>,
    /// the printed form of the failing item must contain this
    #[serde(default)]
    printed_contains: Option<String>,
    /// ... and be at least this long
    #[serde(default)]
    printed_min_len: Option<usize>,
    /// ... and at most this long
    #[serde(default)]
    printed_max_len: Option<usize>,
    /// ... and be exactly MAX_LENGTH + 1 bytes long and equal to the source text with one hyphen
    /// inserted (the item was parsed from a MAX_LENGTH-byte text with a hyphen-less prerelease)
    #[serde(default)]
    printed_is_source_plus_hyphen_at_max_length: bool,
    /// generate the reproducer instead of using `repro`: "hyphenless-at-max-length"
    #[serde(default)]
    repro_kind: Option<String>,
    /// ... and its source must be of this kind ("parsed-range", "setop-range", "version")
    what: String,
    /// a concrete failing input: the finding is announced only while this still fails
    repro: ValueSpec,
    #[serde(default)]
    commit: Option<String>,
}

#[derive(Serialize, Deserialize, Clone, Debug, Default)]
struct KnownFile {
    findings: Vec<KnownFinding>,
}

impl KnownFinding {
    fn reproducer(&self) -> ValueSpec {
        match self.repro_kind.as_deref() {
            Some("hyphenless-at-max-length") => ValueSpec::version(plan::VSrc::Text(format!(
                "1.2.3{}",
                "c".repeat(nodejs_semver::MAX_LENGTH - 5)
            ))),
            _ => self.repro.clone(),
        }
    }

    fn matches(&self, prop: &str, v: &Violation) -> bool {
        if self.property != prop || !self.classes.iter().any(|c| *c == v.class) {
            return false;
        }
        let printed = match &v.printed {
            Some(p) => p,
            None => return false,
        };
        if let Some(sub) = &self.printed_contains {
            if !printed.contains(sub.as_str()) {
                return false;
            }
        }
        if let Some(n) = self.printed_min_len {
            if printed.len() < n {
                return false;
            }
        }
        if let Some(n) = self.printed_max_len {
            if printed.len() > n {
                return false;
            }
        }
        if self.printed_is_source_plus_hyphen_at_max_length {
            let source = match &v.source {
                Some(s) => s,
                None => return false,
            };
            if source.len() != nodejs_semver::MAX_LENGTH || printed.len() != source.len() + 1 {
                return false;
            }
            // removing one hyphen from the printed form must give back the source text
            let ok = printed
                .char_indices()
                .filter(|(_, c)| *c == '-')
                .any(|(i, _)| format!("{}{}", &printed[..i], &printed[i + 1..]) == *source);
            if !ok {
                return false;
            }
        }
        true
    }
}

#[derive(Serialize, Deserialize, Clone, Debug)]
struct ReplayFile {
    property: String,
    origin: String,
    base_seed: u64,
    index: u64,
    violation: Violation,
    /// build profile of the binary that found it: "sim" (debug assertions on) or "simrel" (off);
    /// `./check --replay` replays with the same one
    #[serde(default = "default_profile")]
    profile: String,
    minimised: bool,
    minimisation_attempts: u64,
    /// plans executed on the same thread, in order, before `plan` (empty: `plan` fails alone)
    #[serde(default)]
    history: Vec<Plan>,
    plan: Plan,
    original_plan: Option<Plan>,
    #[serde(default)]
    note: String,
}

fn default_profile() -> String {
    "sim".to_string()
}

struct Args {
    cmd: String,
    prop: Option<Prop>,
    tier: String,
    seed: u64,
    runs: Option<u64>,
    enum_values: Option<usize>,
    workers: usize,
    replay: Option<PathBuf>,
    dump_digests: Option<PathBuf>,
    evidence: Option<PathBuf>,
    known: PathBuf,
    replay_dir: PathBuf,
    fault_free_only: bool,
    no_enum: bool,
    profile_note: String,
    merge_summary: Option<PathBuf>,
    write_summary: Option<PathBuf>,
    class: Option<String>,
    profile_tag: String,
    no_known_lines: bool,
    repo_state: String,
    reenter_note: String,
    long_runs: Option<u64>,
}

fn parse_args() -> Result<Args, String> {
    let mut a = Args {
        cmd: String::new(),
        prop: None,
        tier: std::env::var("VERIF_TIER").unwrap_or_else(|_| "quick".into()),
        seed: std::env::var("VERIF_SEED")
            .ok()
            .and_then(|s| s.trim().parse::<u64>().ok())
            .unwrap_or(DEFAULT_SEED),
        runs: None,
        enum_values: None,
        workers: std::thread::available_parallelism().map(|n| n.get()).unwrap_or(4).min(16),
        replay: None,
        dump_digests: None,
        evidence: None,
        known: PathBuf::from("/verif/known_findings.json"),
        replay_dir: PathBuf::from("/verif/replays"),
        fault_free_only: false,
        no_enum: false,
        profile_note: "sim (opt-level 2, debug-assertions on, overflow-checks on)".into(),
        merge_summary: None,
        write_summary: None,
        class: None,
        profile_tag: if cfg!(debug_assertions) { "sim".into() } else { "simrel".into() },
        no_known_lines: false,
        repo_state: "unknown".into(),
        reenter_note: String::new(),
        long_runs: None,
    };
    let mut it = std::env::args().skip(1);
    a.cmd = it.next().ok_or("usage: semver-dst <check|replay> ...")?;
    while let Some(x) = it.next() {
        let mut val = |name: &str| it.next().ok_or(format!("{} needs a value", name));
        match x.as_str() {
            "C12" => a.prop = Some(Prop::C12),
            "C13" => a.prop = Some(Prop::C13),
            "--tier" => a.tier = val("--tier")?,
            "--seed" => a.seed = val("--seed")?.parse().map_err(|e| format!("--seed: {}", e))?,
            "--runs" => a.runs = Some(val("--runs")?.parse().map_err(|e| format!("--runs: {}", e))?),
            "--enum-values" => {
                a.enum_values = Some(val("--enum-values")?.parse().map_err(|e| format!("--enum-values: {}", e))?)
            }
            "--workers" => a.workers = val("--workers")?.parse().map_err(|e| format!("--workers: {}", e))?,
            "--replay" => a.replay = Some(PathBuf::from(val("--replay")?)),
            "--dump-digests" => a.dump_digests = Some(PathBuf::from(val("--dump-digests")?)),
            "--evidence" => a.evidence = Some(PathBuf::from(val("--evidence")?)),
            "--known" => a.known = PathBuf::from(val("--known")?),
            "--replay-dir" => a.replay_dir = PathBuf::from(val("--replay-dir")?),
            "--fault-free-only" => a.fault_free_only = true,
            "--no-enum" => a.no_enum = true,
            "--profile-note" => a.profile_note = val("--profile-note")?,
            "--merge-summary" => a.merge_summary = Some(PathBuf::from(val("--merge-summary")?)),
            "--write-summary" => a.write_summary = Some(PathBuf::from(val("--write-summary")?)),
            "--class" => a.class = Some(val("--class")?),
            "--no-known-lines" => a.no_known_lines = true,
            "--long-runs" => a.long_runs = Some(val("--long-runs")?.parse().map_err(|e| format!("--long-runs: {}", e))?),
            "--repo-state" => a.repo_state = val("--repo-state")?,
            "--strict-reentrancy" | "--strict-advisory" => run::STRICT_ADVISORY.store(true, std::sync::atomic::Ordering::Relaxed),
            "--no-reenter" => {
                stubs::NO_REENTER.store(true, std::sync::atomic::Ordering::Relaxed);
                a.reenter_note = "re-entrant operations switched off for this run: one of them did not return (the code under test holds a lock across the sink or reader call)".into();
            }
            other => return Err(format!("unknown argument {:?}", other)),
        }
    }
    if a.tier != "quick" && a.tier != "thorough" {
        return Err(format!("unknown tier {:?}", a.tier));
    }
    Ok(a)
}

fn load_known(path: &Path) -> Result<KnownFile, String> {
    match std::fs::read_to_string(path) {
        Ok(s) => serde_json::from_str(&s).map_err(|e| format!("{}: {}", path.display(), e)),
        Err(e) if e.kind() == std::io::ErrorKind::NotFound => Ok(KnownFile::default()),
        Err(e) => Err(format!("{}: {}", path.display(), e)),
    }
}

fn main() {
    run::install_quiet_panic_hook();
    let args = match parse_args() {
        Ok(a) => a,
        Err(e) => {
            eprintln!("HARNESS-ERROR: {}", e);
            std::process::exit(2);
        }
    };
    if let Err(e) = pack::self_test() {
        eprintln!("HARNESS-ERROR: {}", e);
        std::process::exit(2);
    }
    let code = std::panic::catch_unwind(std::panic::AssertUnwindSafe(|| match args.cmd.as_str() {
        "check" => cmd_check(&args),
        "replay" => cmd_replay(&args),
        "probe" => cmd_probe(),
        "exec-history" => match &args.replay {
            Some(p) => sim::exec_history(p),
            None => 2,
        },
        "sequential-find" => cmd_sequential_find(&args),
        "gen-stats" => {
            // triage aid: how many distinct printed forms do N generated values have?
            let prop = args.prop.unwrap_or(Prop::C12);
            let n = args.runs.unwrap_or(100_000);
            let mut set = std::collections::BTreeSet::new();
            let mut stats = Stats::default();
            let mut viol = 0u64;
            let mut classes: std::collections::BTreeMap<String, u64> = Default::default();
            for i in 0..n {
                let out = sim::search_run(prop, args.seed, i, args.fault_free_only, &mut stats);
                for v in &out.violations {
                    *classes.entry(v.class.clone()).or_insert(0u64) += 1;
                }
                if !out.violations.is_empty() {
                    viol += 1;
                    if viol < 1 {
                        println!("run {}: {} - {}", i, out.violations[0].class, out.violations[0].detail.chars().take(160).collect::<String>());
                    }
                }
                if let Some(p) = out.summary.get("printed") {
                    set.insert(p.to_string());
                }
            }
            println!("{} runs, {} distinct printed records, {} runs with violations {:?}", n, set.len(), viol, classes);
            0
        }
        other => {
            eprintln!("HARNESS-ERROR: unknown command {:?}", other);
            2
        }
    }))
    .unwrap_or_else(|_| {
        eprintln!("HARNESS-ERROR: the simulator itself panicked (see above); no verdict");
        2
    });
    std::process::exit(code);
}

/// `semver-dst probe` reads range / version texts from stdin (one per line, prefix `v:` for a
/// version) and shows parse -> print -> re-parse.  A triage aid, not a check.
fn cmd_probe() -> i32 {
    use std::io::BufRead;
    for line in std::io::stdin().lock().lines() {
        let line = line.unwrap_or_default();
        if let Some(t) = line.strip_prefix("v:") {
            match nodejs_semver::Version::parse(t) {
                Ok(v) => {
                    let s = v.to_string();
                    println!("{:?} -> {:?} -> reparse {:?}", t, s, nodejs_semver::Version::parse(&s).map(|w| values::version_identical(&v, &w)).map_err(|e| e.to_string()));
                }
                Err(e) => println!("{:?} -> Err({})", t, e),
            }
        } else {
            match nodejs_semver::Range::parse(&line) {
                Ok(r) => {
                    let s = r.to_string();
                    println!("{:?} -> {:?} -> reparse {:?}", line, s, nodejs_semver::Range::parse(&s).map(|w| w == r).map_err(|e| e.to_string()));
                }
                Err(e) => println!("{:?} -> Err({})", line, e),
            }
        }
    }
    0
}

fn default_budget(prop: Prop, thorough: bool) -> (u64, usize) {
    // a version run costs ~4 us, a range run ~20 us (probe versions around every bound)
    let runs = match (prop, thorough) {
        (Prop::C12, false) => 1_000_000,
        (Prop::C12, true) => 40_000_000,
        (Prop::C13, false) => 400_000,
        (Prop::C13, true) => 10_000_000,
    };
    (runs, if thorough { 1500 } else { 24 })
}

fn cmd_sequential_find(args: &Args) -> i32 {
    let (prop, class, out) = match (args.prop, &args.class, &args.replay) {
        (Some(p), Some(c), Some(o)) => (p, c.clone(), o.clone()),
        _ => return 2,
    };
    let (druns, dextra) = default_budget(prop, false);
    let runs = args.runs.unwrap_or(druns);
    let values = sim::corpus_values(prop, args.enum_values.unwrap_or(dextra), args.seed);
    sim::sequential_find(prop, args.seed, runs, &values, &class, 4096, &out)
}

fn cmd_replay(args: &Args) -> i32 {
    let path = match &args.replay {
        Some(p) => p.clone(),
        None => {
            eprintln!("HARNESS-ERROR: replay needs --replay <file>");
            return 2;
        }
    };
    let rf: ReplayFile = match std::fs::read_to_string(&path)
        .map_err(|e| e.to_string())
        .and_then(|s| serde_json::from_str(&s).map_err(|e| e.to_string()))
    {
        Ok(r) => r,
        Err(e) => {
            eprintln!("HARNESS-ERROR: cannot read replay file {}: {}", path.display(), e);
            return 2;
        }
    };
    println!(
        "replay: property={} class={} origin={} base_seed={} index={} found-by-profile={} this-binary={}",
        rf.property,
        rf.violation.class,
        rf.origin,
        rf.base_seed,
        rf.index,
        rf.profile,
        if cfg!(debug_assertions) { "sim" } else { "simrel" }
    );
    let mut stats = Stats::default();
    if !rf.history.is_empty() {
        println!("replay: executing {} earlier run(s) of the same thread first", rf.history.len());
    }
    for h in &rf.history {
        let _ = run::execute(h, None, &mut stats);
    }
    let out = run::execute(&rf.plan, None, &mut stats);
    if !out.built {
        println!("replay: the recorded value can no longer be constructed on this tree; nothing to check");
        return 0;
    }
    println!("{}", serde_json::to_string_pretty(&out.summary).unwrap_or_default());
    let mut hit = false;
    for v in &out.violations {
        println!("  violated: {} - {}", v.class, v.detail);
        if v.class == rf.violation.class {
            hit = true;
        }
    }
    if hit {
        println!("VIOLATION property={} replay={}", rf.property, path.display());
        1
    } else {
        println!("replay: the recorded violation class {} did not reproduce on this tree", rf.violation.class);
        0
    }
}

/// A re-entrant operation that never returns (the code under test holds a lock across the sink
/// call and the nested operation wants the same lock) would hang the whole check.  Re-entrancy is
/// advisory, so it must never cost the verdict: when nothing has moved for a while and a
/// re-entrant operation is in flight, the process replaces itself with the same command line plus
/// `--no-reenter`.
fn start_reentrancy_watchdog() {
    use std::sync::atomic::Ordering::SeqCst;
    if stubs::NO_REENTER.load(SeqCst) {
        return;
    }
    std::thread::spawn(|| {
        let mut last = stubs::PROGRESS.load(SeqCst);
        let mut still = 0u32;
        loop {
            std::thread::sleep(std::time::Duration::from_millis(500));
            let now = stubs::PROGRESS.load(SeqCst);
            if now != last || stubs::NESTED_IN_FLIGHT.load(SeqCst) <= 0 {
                last = now;
                still = 0;
                continue;
            }
            still += 1;
            if still >= 20 {
                println!("REENTRANCY-NOTE: a re-entrant operation has not returned for 10 s while nothing else made progress (a lock held across the sink call?); restarting without re-entrant operations");
                use std::os::unix::process::CommandExt;
                let mut args: Vec<String> = std::env::args().collect();
                let exe = std::env::current_exe().unwrap_or_else(|_| std::path::PathBuf::from(&args[0]));
                args.remove(0);
                args.push("--no-reenter".into());
                let err = std::process::Command::new(exe).args(args).exec();
                eprintln!("HARNESS-ERROR: could not restart without re-entrant operations: {}", err);
                std::process::exit(2);
            }
        }
    });
}

fn cmd_check(args: &Args) -> i32 {
    start_reentrancy_watchdog();
    let prop = match args.prop {
        Some(p) => p,
        None => {
            eprintln!("HARNESS-ERROR: check needs a property id (C12 or C13)");
            return 2;
        }
    };
    let t0 = Instant::now();
    let thorough = args.tier == "thorough";
    let (druns, dextra) = default_budget(prop, thorough);
    let runs = args.runs.unwrap_or(druns);
    let enum_extra = args.enum_values.unwrap_or(dextra);
    println!(
        "semver-dst: property={} tier={} VERIF_SEED={} workers={} profile={}",
        prop.id(), args.tier, args.seed, args.workers, args.profile_note
    );
    let known = match load_known(&args.known) {
        Ok(k) => k,
        Err(e) => {
            eprintln!("HARNESS-ERROR: {}", e);
            return 2;
        }
    };

    // 0. known findings: announce each open one that still reproduces
    let mut announced: Vec<String> = Vec::new();
    for kf in known.findings.iter().filter(|k| k.property == prop.id() && k.status == "known") {
        let mut scratch = Stats::default();
        let out = run::execute(&Plan::fault_free(kf.reproducer()), None, &mut scratch);
        if out.violations.iter().any(|v| kf.matches(prop.id(), v)) {
            if !args.no_known_lines {
                println!("KNOWN-FINDING: property={} id={} {}", prop.id(), kf.id, kf.what);
            }
            announced.push(kf.id.clone());
        } else {
            println!(
                "NOTE: known finding {} no longer reproduces on this tree (its reproducer passes); it suppresses nothing now",
                kf.id
            );
        }
    }
    let open: Vec<&KnownFinding> = known
        .findings
        .iter()
        .filter(|k| k.status == "known" && announced.contains(&k.id))
        .collect();

    // 1. exhaustive single-fault enumeration over the corpus
    let t1 = Instant::now();
    let values = sim::corpus_values(prop, enum_extra, args.seed);
    let n_values = values.len();
    let en = if args.fault_free_only || args.no_enum {
        sim::BatchResult { stats: Stats::default(), found: vec![], samples: vec![], executed: 0, digests: vec![] }
    } else {
        sim::run_enumeration(&values, args.workers)
    };
    let enum_s = t1.elapsed().as_secs_f64();
    println!(
        "enumeration: {} values, {} single-fault plans executed in {:.1}s",
        n_values, en.executed, enum_s
    );

    // 1b. C13: set operations over every ordered pair of the edge-of-the-order ranges, baseline only
    let alg = if prop == Prop::C13 && !args.fault_free_only && !args.no_enum {
        let r = sim::run_baseline_only(&sim::algebra_values());
        println!("algebra corpus: {} set-operation results over the special ranges through the fault-free plan", r.executed);
        r
    } else {
        sim::BatchResult { stats: Stats::default(), found: vec![], samples: vec![], executed: 0, digests: vec![] }
    };

    // 2a. fault-free batch of the same workload (so that relaxed expectations hide no ordinary bug)
    let t2 = Instant::now();
    let ff_runs = (runs / 4).max(1);
    let ff = sim::run_search(prop, args.seed ^ 0xFF00_FF00, ff_runs, args.workers, true, false);
    // 2b. seeded multi-fault search
    let se = sim::run_search(prop, args.seed, runs, args.workers, args.fault_free_only, args.dump_digests.is_some());
    // 2c. long history: one thread, tens of thousands of runs in a row
    let long_runs: u64 = if let Some(n) = args.long_runs {
        n
    } else if args.fault_free_only || args.no_enum {
        0
    } else {
        // single-threaded, about 60 us (versions) / 250 us (ranges) per run: a short one in the
        // quick tier for versions, the long ones in the thorough tier
        match (prop, thorough) {
            (Prop::C12, false) => 150_000,
            (Prop::C13, false) => 0,
            (Prop::C12, true) => 1_000_000,
            (Prop::C13, true) => 300_000,
        }
    };
    let long_base = args.seed ^ 0x10C6_0000_0000;
    let lg = if long_runs > 0 {
        sim::run_search_chunked(prop, long_base, long_runs, 1, false, false, long_runs, "long-history-search")
    } else {
        sim::BatchResult { stats: Stats::default(), found: vec![], samples: vec![], executed: 0, digests: vec![] }
    };
    let search_s = t2.elapsed().as_secs_f64();
    println!(
        "search: {} fault-free runs + {} swarm runs + {} runs on one thread (long history) in {:.1}s ({:.0} runs/s)",
        ff_runs,
        runs,
        long_runs,
        search_s,
        (ff_runs + runs + long_runs) as f64 / search_s.max(1e-9)
    );
    if let Some(p) = &args.dump_digests {
        let mut s = String::new();
        for (i, d) in &se.digests {
            s.push_str(&format!("{} {:016x}\n", i, d));
        }
        if let Err(e) = std::fs::write(p, s) {
            eprintln!("HARNESS-ERROR: cannot write {}: {}", p.display(), e);
            return 2;
        }
    }

    // 3. triage: known findings vs violations
    let mut stats = Stats::default();
    let batch_digest = (en.stats.log_digest, ff.stats.log_digest, se.stats.log_digest);
    let mut all_found: Vec<Found> = Vec::new();
    all_found.extend(en.found.iter().cloned());
    all_found.extend(alg.found.iter().cloned());
    all_found.extend(ff.found.iter().cloned().map(|mut f| {
        f.origin = "fault-free-search";
        f
    }));
    all_found.extend(se.found.iter().cloned());
    all_found.extend(lg.found.iter().cloned());
    let fault_kind_hist = serde_json::json!({
        "enumeration": en.stats.counters_json(),
        "fault_free_search": ff.stats.counters_json(),
        "swarm_search": se.stats.counters_json(),
    });
    stats.merge(en.stats);
    stats.merge(alg.stats);
    stats.merge(ff.stats);
    stats.merge(se.stats);
    stats.merge(lg.stats);

    let mut known_hits: std::collections::BTreeMap<String, u64> = Default::default();
    let mut real: Vec<Found> = Vec::new();
    for f in all_found {
        if f.violation.class.starts_with("H-harness") {
            eprintln!("HARNESS-ERROR: {} - {}", f.violation.class, f.violation.detail);
            return 2;
        }
        if let Some(k) = open.iter().find(|k| k.matches(prop.id(), &f.violation)) {
            *known_hits.entry(k.id.clone()).or_default() += 1;
            stats.inc(C::known_finding_hits);
        } else {
            real.push(f);
        }
    }
    // a value that hits a known finding in G0 also fails R1 for the same reason and is guarded by
    // g0_ok inside the run; nothing else is suppressed.

    // 4. minimise and report: one replay file per distinct class (lowest index first)
    let mut reported: Vec<(String, PathBuf)> = Vec::new();
    real.sort_by(|a, b| (a.origin, a.index).cmp(&(b.origin, b.index)));
    let mut seen_classes: Vec<String> = Vec::new();
    let _ = std::fs::create_dir_all(&args.replay_dir);
    let mut class_order: Vec<String> = Vec::new();
    for f in &real {
        if !class_order.contains(&f.violation.class) {
            class_order.push(f.violation.class.clone());
        }
    }
    let triage_started = Instant::now();
    let mut pending: Vec<(bool, ReplayFile, &'static str, u64)> = Vec::new();
    for class in class_order.iter().take(6) {
        seen_classes.push(class.clone());
        let ctx = sim::ReproCtx {
            prop,
            long_base,
            search_base: args.seed,
            fault_free_base: args.seed ^ 0xFF00_FF00,
            fault_free_only: args.fault_free_only,
            enum_values: &values,
        };
        // the first occurrence that replays exactly is the one reported; an occurrence that
        // depends on what another thread did to shared state does not replay, so try the next
        let candidates: Vec<&Found> = real.iter().filter(|f| f.violation.class == *class).take(5).collect();
        let mut chosen: Option<(&Found, sim::Repro)> = None;
        for f in &candidates {
            if chosen.is_some() && triage_started.elapsed().as_secs() > 120 {
                break;
            }
            let r = sim::reproduce(f, &ctx);
            let ok = r.reproducible;
            if chosen.is_none() || ok {
                chosen = Some((*f, r));
            }
            if ok {
                break;
            }
        }
        let (f, mut repro) = chosen.expect("class has at least one occurrence");
        // "fails alone on a fresh thread" may be a lie told by state the whole process shares
        // (a global lock poisoned by an injected sink panic, say): before a replay file is
        // written, the reproduction is confirmed in a fresh process
        if repro.reproducible && !sim::history_fails_in_child(&repro.history, &repro.plan, class) {
            repro.reproducible = false;
            repro.note = "the violation reproduces in this process but not when the recorded runs are executed in a fresh process: the code under test keeps process-wide state that earlier runs had already changed".into();
        }
        if !repro.reproducible && triage_started.elapsed().as_secs() < 240 {
            // state shared between threads: only a fresh single-threaded process is a fresh start
            let quick_runs = runs.min(default_budget(prop, false).0);
            if let Some(r) = sim::reproduce_in_processes(prop, args.seed, quick_runs, enum_extra.min(24), class) {
                repro = r;
            }
        }
        // re-run to get the final wording of the violation
        let v = sim::in_fresh_thread(|| {
            let mut scratch = Stats::default();
            for h in &repro.history {
                let _ = run::execute(h, None, &mut scratch);
            }
            run::execute(&repro.plan, None, &mut scratch)
        })
        .violations
        .iter()
        .find(|v| v.class == f.violation.class)
        .cloned()
        .unwrap_or_else(|| f.violation.clone());
        let reproducible = repro.reproducible;
        let rf = ReplayFile {
            property: prop.id().to_string(),
            origin: f.origin.to_string(),
            base_seed: args.seed,
            index: f.index,
            violation: v.clone(),
            profile: args.profile_tag.clone(),
            minimised: repro.plan != f.plan,
            minimisation_attempts: repro.attempts,
            history: repro.history,
            plan: repro.plan,
            original_plan: Some(f.plan.clone()),
            note: repro.note,
        };
        pending.push((reproducible, rf, f.origin, f.index));
    }
    // occurrences that replay exactly are reported with their replay file.  A class that only
    // ever showed through state another thread left behind cannot be replayed; it is reported
    // with a VIOLATION line only if nothing replayable was found, otherwise as a note.
    let any_replayable = pending.iter().any(|p| p.0);
    for (reproducible, rf, origin, index) in &pending {
        let v = &rf.violation;
        if !rf.note.is_empty() {
            println!("note: {} - {}", v.class, rf.note);
        }
        if !reproducible && any_replayable {
            println!("also observed (not replayable, several threads involved): {} [{} #{}] {}", v.class, origin, index, v.detail);
            continue;
        }
        let path = args.replay_dir.join(format!(
            "{}-{}-{}-{}{}.json",
            prop.id(),
            args.seed,
            index,
            v.class,
            if rf.profile == "sim" { "" } else { "-simrel" }
        ));
        match std::fs::write(&path, serde_json::to_string_pretty(&rf).unwrap()) {
            Ok(()) => {}
            Err(e) => {
                eprintln!("HARNESS-ERROR: cannot write replay file {}: {}", path.display(), e);
                return 2;
            }
        }
        println!("violated: {} [{} #{}] {}", v.class, origin, index, v.detail);
        println!("VIOLATION property={} replay={}", prop.id(), path.display());
        reported.push((v.class.clone(), path));
    }
    stats.add(C::violations, real.len() as u64);

    // 4b. advisory observations (never change the exit code)
    let advisory_n = stats.get(C::advisory_reentrancy_observations);
    let protocol_n = stats.get(C::advisory_protocol_observations);
    let robustness_n = stats.get(C::advisory_robustness_observations);
    for (class, detail, kind) in &stats.advisory_samples {
        let d: String = detail.chars().take(300).collect();
        println!("{}-NOTE: property={} {} - {}", kind, prop.id(), class, d);
    }
    if !args.reenter_note.is_empty() {
        println!("REENTRANCY-NOTE: {}", args.reenter_note);
    }
    if advisory_n > 0 {
        println!(
            "REENTRANCY-NOTE: {} observation(s) in runs where a sink or reader re-entered the crate; advisory only (C12/C13 quantify over values, not calling contexts) - see DESIGN.md 7.8",
            advisory_n
        );
    }
    if protocol_n > 0 {
        println!(
            "PROTOCOL-NOTE: {} observation(s) of a printing/serialising call that reported the sink's failure but kept writing after it; advisory only (the caller was told the call failed) - see DESIGN.md 7.8",
            protocol_n
        );
    }
    let format_n = stats.get(C::advisory_format_observations);
    if format_n > 0 {
        println!(
            "FORMAT-NOTE: {} observation(s) in phase B (the crate's Serialize and Deserialize under the simulator's binary, not human-readable format: disagreement with each other, acknowledgement after a sink error, inexact acknowledged bytes, torn record accepted); advisory only (C12/C13 speak of the JSON round trip) - see DESIGN.md 7.10",
            format_n
        );
    }
    if robustness_n > 0 {
        println!(
            "ROBUSTNESS-NOTE: {} panic(s) while reading torn or corrupted records; advisory only (what parsing does with arbitrary text is C05/C06's business) - see DESIGN.md 7.8",
            robustness_n
        );
    }

    // 5. reach warnings (never change the exit code)
    let mut reach_warnings: Vec<String> = Vec::new();
    if !args.fault_free_only {
        for c in [
            C::w_short, C::w_eintr, C::w_hard_transient, C::w_hard_sticky, C::w_full, C::w_lost, C::w_crash,
            C::flush_err, C::flush_crash, C::p_fail_transient, C::p_fail_sticky, C::r_eintr, C::r_hard, C::r_eof,
            C::flips_applied, C::wr_acknowledged, C::wr_failed_honestly, C::wr_crashed, C::survivors_torn,
            C::survivors_complete, C::r1_durability_checked, C::probe_fault_on_first_write,
            C::probe_fault_on_last_write, C::probe_fault_in_multidigit_fragment, C::probe_eintr_then_hard,
            C::probe_short_then_hard, C::probe_record_at_max_length, C::probe_flip_separator_to_identifier,
            C::probe_crash_inside_short_write, C::probe_bufwriter_flush_failure_after_clean_display,
            C::probe_max_safe_integer_component, C::probe_fault_between_list_items,
            C::dl_reader, C::dl_bufreader, C::dl_str, C::dl_value, C::dl_in_place,
            C::dl_escaped_str, C::dl_escaped_reader, C::flip_runs_rejected, C::flip_runs_other_value,
        ] {
            if stats.get(c) == 0 {
                let name = stats::COUNTER_NAMES[c as usize];
                println!("REACH-WARNING: {} was never hit in this run", name);
                reach_warnings.push(name.to_string());
            }
        }
    }

    // 6. evidence
    let wall = t0.elapsed().as_secs_f64();
    let distinct = stats.distinct_nontrivial();
    let evaluations = stats.get(C::runs);
    let reach_matrix: Vec<serde_json::Value> = stats
        .reach
        .iter()
        .map(|(site, kind, phase)| {
            serde_json::json!({
                "site": SITE_NAMES[*site as usize],
                "fault": FAULT_NAMES[*kind as usize],
                "phase": if *phase == 0 { "fmt-sink" } else { "writer" },
            })
        })
        .collect();
    let faulted_reach = stats.reach.iter().filter(|(_, k, _)| *k != 11).count();
    let mut samples = Vec::new();
    samples.extend(en.samples.iter().cloned());
    samples.extend(se.samples.iter().cloned());
    samples.truncate(10);
    if samples.is_empty() {
        samples.push(serde_json::json!({"note": "no sample captured"}));
    }
    let merged_extra: Option<serde_json::Value> = args
        .merge_summary
        .as_ref()
        .and_then(|p| std::fs::read_to_string(p).ok())
        .and_then(|s| serde_json::from_str(&s).ok());
    let summary = serde_json::json!({
        "profile": args.profile_note,
        "runs": evaluations,
        "violations": real.len(),
        "wall_s": wall,
        "event_log_digest": format!("{:016x}/{:016x}/{:016x}", batch_digest.0, batch_digest.1, batch_digest.2),
    });
    if let Some(p) = &args.write_summary {
        let _ = std::fs::write(p, serde_json::to_string_pretty(&summary).unwrap());
    }
    let evidence = serde_json::json!({
        "property_id": prop.id(),
        "tier": args.tier,
        "seed": args.seed,
        "level": "exploration",
        "coverage": {
            "evaluations": evaluations,
            "distinct_nontrivial": distinct,
            "rule": "one evaluation = one simulated run: value(s) in a JSON document shape (bare, array, struct field, internally tagged / untagged enum, flattened struct, Option, map keys) -> in-memory baseline (print, re-parse, compare, serde in memory) -> printing into the simulated fmt::Write sink -> serde_json::to_writer[_pretty] through the recording shim [and a BufWriter] into the simulated writer and medium -> crash / lost writes / bit flips -> recovery through the planned delivery modes under their read schedules -> phase B: the same document through the simulator's second format (binary, self-describing, not human-readable) in memory, then onto a second simulated medium under its own write / flush schedule and back through a simulated reader under its own read schedule (seeded search and replay only; the enumeration runs phase B fault-free). Enumeration part: for each corpus value every write_str index x {transient, sticky, re-enter, sink panic} in 3 caller shapes, every write-call index x {EINTR, transient, sticky, full, lost, re-enter, sink panic, short(1), short(len-1), EINTR+hard} and a crash at every byte of every call x 4 tail-survival choices under 5-6 knob sets, 4 flush faults, every read-call index x {EINTR, hard, EOF, 1-byte chunk, re-enter} for the 4 reader deliveries (8 deliveries in all), every single bit of the stored record; complete per value. Search part: value (one run in eight a sibling of the previous run's value), knobs, enabled fault kinds and rates, and every stub decision drawn from xoshiro256** seeded by splitmix64(VERIF_SEED, run index); chunks of 512 runs execute on a thread of their own so that the earlier runs of a chunk are an exact, replayable history. A run is non-trivial when at least one fault or re-entrant operation was actually delivered while the phase had in-flight state (write fault with >=1 serializer write issued, formatter fault, read fault on a non-empty medium, a bit flip, a re-entrant operation); distinct = distinct FNV-1a keys over (value spec, knobs, effective schedule of every stub).",
            "samples": samples,
            "exhaustive": false,
            "enumeration": {
                "values": n_values,
                "single_fault_plans_executed": en.executed,
                "complete_per_value": true,
                "wall_s": enum_s,
            },
            "search": {
                "fault_free_runs": ff_runs,
                "swarm_runs": runs,
                "long_history_runs_on_one_thread": long_runs,
                "wall_s": search_s,
                "runs_per_hour": ((ff_runs + runs + long_runs) as f64 / search_s.max(1e-9) * 3600.0) as u64,
                "seeds_per_hour": ((ff_runs + runs + long_runs) as f64 / search_s.max(1e-9) * 3600.0) as u64,
                "rate_note": "wall time includes the single-threaded long-history pass; the parallel batches alone run at several times this rate",
            },
            "faults_injected": {
                "writer": {
                    "short_write": stats.get(C::w_short), "eintr": stats.get(C::w_eintr),
                    "transient_error": stats.get(C::w_hard_transient), "sticky_error": stats.get(C::w_hard_sticky),
                    "device_full": stats.get(C::w_full), "lost_write": stats.get(C::w_lost),
                    "crash_inside_write": stats.get(C::w_crash), "flush_error": stats.get(C::flush_err),
                    "crash_inside_flush": stats.get(C::flush_crash), "reentrant_serialize": stats.get(C::w_reenter),
                },
                "formatter_sink": {
                    "transient_error": stats.get(C::p_fail_transient), "sticky_error": stats.get(C::p_fail_sticky),
                    "reentrant_print": stats.get(C::p_reenter),
                },
                "reader": {
                    "eintr": stats.get(C::r_eintr), "hard_error": stats.get(C::r_hard),
                    "premature_eof": stats.get(C::r_eof), "reentrant_deserialize": stats.get(C::r_reenter),
                },
                "storage": {
                    "bit_flips": stats.get(C::flips_applied), "crashes": stats.get(C::wr_crashed),
                    "torn_survivors": stats.get(C::survivors_torn), "media_with_lost_writes": stats.get(C::wr_corrupted_by_medium),
                },
                "outcomes": {
                    "acknowledged": stats.get(C::wr_acknowledged), "failed_honestly": stats.get(C::wr_failed_honestly),
                    "intact_records_read_back_and_compared": stats.get(C::r1_durability_checked),
                    "torn_records_rejected": stats.get(C::r3_torn_rejected),
                    "flipped_records_rejected": stats.get(C::flip_runs_rejected),
                    "flipped_records_read_as_another_value_consistently": stats.get(C::flip_runs_other_value),
                    "nested_operations_checked": stats.get(C::nested_ops_ok),
                },
            },
            "repo_state": args.repo_state,
            "advisory_reentrancy": {
                "observations": advisory_n,
                "samples": stats.advisory_samples.iter().map(|(c, d, k)| serde_json::json!({"kind": k, "class": c, "detail": d})).collect::<Vec<_>>(),
                "protocol_observations": protocol_n,
                "robustness_observations": robustness_n,
                "note": "runs in which a stub re-entered the crate are advisory: nothing they observe changes the verdict",
                "format_observations": format_n,
                "format_note": "phase B (the simulator's second, binary format) is advisory: C12/C13 speak of the JSON round trip; --strict-advisory promotes its observations to violations",
                "switched_off": args.reenter_note,
            },
            "simulated_time_s": 0,
            "simulated_time_note": "the code under test has no clock, timer or deadline; there is no simulated time to cover",
            "counters": stats.counters_json(),
            "counters_by_part": fault_kind_hist,
            "reach": {
                "distinct_site_fault_phase_triples": stats.reach.len(),
                "of_which_with_a_fault": faulted_reach,
                "distinct_record_length_x_surviving_length_pairs": stats.crash_pairs.len(),
                "matrix": reach_matrix,
                "warnings": reach_warnings,
            },
            "components": {
                "real": [
                    "nodejs_semver Display/Serialize/Deserialize/Version::parse/Range::parse/PartialEq/satisfies/allows_any/intersect/difference (from /repo working tree, feature serde, unmodified)",
                    "serde, serde_json to_writer/to_writer_pretty/to_value/from_reader/from_slice/from_str/from_value, serde derive (struct field, internally tagged / untagged enum, flatten, Option, map keys), Deserialize::deserialize_in_place",
                    "std::io::Write::write_all, std::io::BufWriter, std::io::BufReader, core::fmt::write"
                ],
                "stubs": ["SimWriter (io::Write)", "SimReader (io::Read)", "SimFmtSink (fmt::Write)", "Disk (durable prefix + volatile tail, crash, lost write, bit flips)", "process crash/restart", "re-entrant caller (a sink/reader that itself uses the crate)", "simpack (sim/src/pack.rs): the simulator's own second serde format - binary, self-describing, not human-readable, streaming Serializer over io::Write and Deserializer over io::Read; self-tested at process start; used by phase B of every run, counters pack_*"],
                "absent": ["scheduler for tasks (the crate has no threads, tasks or shared state; worker threads only parallelise independent chunks)", "network", "clock"]
            },
            "known_findings_announced": announced,
            "known_finding_hits": known_hits,
            "event_log_digest": summary["event_log_digest"],
            "other_profile": merged_extra,
        },
        "assumptions": [
            "only the stream/sink clause of the property is decided; the for-all-inputs core is sampled, not decided (DESIGN.md section 3)",
            "serde_json 1.0.151 and std are trusted as the real serializer/deserializer and I/O adapters",
            "the fault model is: short write, EINTR, transient/sticky error, device full, lost write, crash with torn tail, flush error, bit flip at rest, read EINTR/error/premature EOF, formatter sink error"
        ],
        "wall_s": wall,
        "violations": real.len(),
    });
    let ev_path = args
        .evidence
        .clone()
        .unwrap_or_else(|| PathBuf::from(format!("/verif/evidence/{}.json", prop.id())));
    if let Some(dir) = ev_path.parent() {
        let _ = std::fs::create_dir_all(dir);
    }
    if let Err(e) = std::fs::write(&ev_path, serde_json::to_string_pretty(&evidence).unwrap()) {
        eprintln!("HARNESS-ERROR: cannot write evidence {}: {}", ev_path.display(), e);
        return 2;
    }
    println!(
        "done: {} runs, {} distinct non-trivial, {} (site,fault,phase) triples, {} violations, {} known-finding hits, {:.1}s; evidence {}",
        evaluations,
        distinct,
        stats.reach.len(),
        real.len(),
        stats.get(C::known_finding_hits),
        wall,
        ev_path.display()
    );
    if real.is_empty() {
        0
    } else {
        1
    }
}
